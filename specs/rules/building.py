"""Building / Skyscrapers oracle.

Published rules (Nikoli "Building puzzle", Janko "Skyscrapers"): fill the n x n grid with heights 1..n so
that every row and every column holds each height exactly once; a number outside the grid tells how many
buildings are visible from there looking along that row / column (a building hides all lower ones behind).

Problem format of solve_building(n, up, dw, lf, rg): four lists of length n; up[x] / dw[x] are the clues
above / below column x, lf[y] / rg[y] left / right of row y; a value < 1 means "no clue".
"""
import itertools

MODULE = "cspuz.puzzle.building"


def run_real(mod, inst):
    n = inst["n"]
    is_sat, ans = mod.solve_building(n, inst["up"], inst["dw"], inst["lf"], inst["rg"])
    return is_sat, {(y, x): ans[y, x].sol for y in range(n) for x in range(n)}


def _visible(seq):
    cnt, top = 0, 0
    for v in seq:
        if v > top:
            cnt += 1
            top = v
    return cnt


def _latin(n):
    perms = list(itertools.permutations(range(1, n + 1)))
    rows = []

    def rec():
        if len(rows) == n:
            yield [list(r) for r in rows]
            return
        for p in perms:
            if all(p[x] != r[x] for r in rows for x in range(n)):
                rows.append(p)
                yield from rec()
                rows.pop()

    yield from rec()


_LATIN = {}


def _latin_cached(n):
    if n not in _LATIN:
        _LATIN[n] = list(_latin(n))
    return _LATIN[n]


def _clues_of(g):
    n = len(g)
    up = [_visible([g[y][x] for y in range(n)]) for x in range(n)]
    dw = [_visible([g[y][x] for y in reversed(range(n))]) for x in range(n)]
    lf = [_visible(g[y]) for y in range(n)]
    rg = [_visible(list(reversed(g[y]))) for y in range(n)]
    return up, dw, lf, rg


def _backtrack(n, up, dw, lf, rg):
    """row-by-row search; the pruning (row clues first, column prefix for `up`) only skips grids that the
    final full check would reject anyway"""
    perms = list(itertools.permutations(range(1, n + 1)))
    cand = []
    for y in range(n):
        cand.append([p for p in perms
                     if (lf[y] < 1 or _visible(p) == lf[y]) and (rg[y] < 1 or _visible(p[::-1]) == rg[y])])
    rows, out = [], []

    def rec():
        y = len(rows)
        if y == n:
            g = [list(r) for r in rows]
            if _obeys(g, up, dw, lf, rg):
                out.append(g)
            return
        for p in cand[y]:
            if any(p[x] == r[x] for r in rows for x in range(n)):
                continue
            ok = True
            for x in range(n):
                if up[x] >= 1:
                    col = [r[x] for r in rows] + [p[x]]
                    v = _visible(col)
                    if v > up[x] or (n in col and v != up[x]):
                        ok = False
                        break
            if ok:
                rows.append(p)
                rec()
                rows.pop()

    rec()
    return out


def _obeys(g, up, dw, lf, rg):
    n = len(g)
    for y in range(n):
        if sorted(g[y]) != list(range(1, n + 1)):
            return False
        if sorted(g[i][y] for i in range(n)) != list(range(1, n + 1)):
            return False
    cu, cd, cl, cr = _clues_of(g)
    for i in range(n):
        if up[i] >= 1 and cu[i] != up[i]:
            return False
        if dw[i] >= 1 and cd[i] != dw[i]:
            return False
        if lf[i] >= 1 and cl[i] != lf[i]:
            return False
        if rg[i] >= 1 and cr[i] != rg[i]:
            return False
    return True


def solutions(inst):
    n = inst["n"]
    up, dw, lf, rg = inst["up"], inst["dw"], inst["lf"], inst["rg"]
    if n <= 4:
        grids = [g for g in _latin_cached(n) if _obeys(g, up, dw, lf, rg)]   # plain enumeration
    else:
        grids = _backtrack(n, up, dw, lf, rg)
    return [{(y, x): g[y][x] for y in range(n) for x in range(n)} for g in grids]


def classify(inst):
    n = inst["n"]
    allc = inst["up"] + inst["dw"] + inst["lf"] + inst["rg"]
    k = sum(1 for c in allc if c >= 1)
    if k == 0:
        return "n=%d no clues" % n
    if max(allc) > n:
        return "n=%d clue>n" % n
    return "n=%d" % n


def instances(tier, rnd):
    quick = tier == "quick"
    # n = 1: every clue combination from {0, 1, 2}
    for c in itertools.product([0, 1, 2], repeat=4):
        yield dict(n=1, up=[c[0]], dw=[c[1]], lf=[c[2]], rg=[c[3]])
    # n = 2: all clue vectors over {0,1,2} on one side pair, sampled otherwise
    allc2 = list(itertools.product([0, 1, 2], repeat=8))
    pick = rnd.sample(allc2, 25 if quick else 400)
    pick.append((0,) * 8)
    pick.append((3, 0, 0, 0, 0, 0, 0, 0))
    for c in pick:
        yield dict(n=2, up=list(c[0:2]), dw=list(c[2:4]), lf=list(c[4:6]), rg=list(c[6:8]))
    for n, cnt in ((3, 35 if quick else 500), (4, 40 if quick else 900)):
        yield dict(n=n, up=[0] * n, dw=[0] * n, lf=[0] * n, rg=[0] * n)
        lat = _latin_cached(n)
        for i in range(cnt):
            g = rnd.choice(lat)
            cl = [list(c) for c in _clues_of(g)]
            keep = rnd.choice([0.15, 0.3, 0.5, 0.8, 1.0])
            for side in cl:
                for j in range(n):
                    if rnd.random() > keep:
                        side[j] = rnd.choice([0, 0, 0, -1])
            mode = i % 6
            if mode == 0:      # perturb one clue (may become unsatisfiable)
                s, j = rnd.randrange(4), rnd.randrange(n)
                cl[s][j] = rnd.randint(1, n + 1)
            elif mode == 1:    # fully random clues
                cl = [[rnd.choice([0, 0] + list(range(1, n + 1))) for _ in range(n)] for _ in range(4)]
            yield dict(n=n, up=cl[0], dw=cl[1], lf=cl[2], rg=cl[3])


# /repo/cspuz/puzzle/building.py _main() (https://twitter.com/semiexp/status/1223911674941296641); the solution
# below was checked against all sixteen clues by hand.
_EX_GRID = [
    [1, 6, 2, 5, 4, 3],
    [6, 5, 4, 3, 2, 1],
    [5, 4, 1, 6, 3, 2],
    [2, 3, 6, 4, 1, 5],
    [3, 2, 5, 1, 6, 4],
    [4, 1, 3, 2, 5, 6],
]
EXAMPLES = [
    (dict(n=6, up=[0, 0, 0, 2, 0, 3], dw=[0, 6, 3, 3, 2, 0], lf=[2, 0, 0, 3, 3, 3], rg=[0, 6, 3, 0, 2, 0]),
     {(y, x): _EX_GRID[y][x] for y in range(6) for x in range(6)}),
]
