"""Putteria oracle.

Published rules (puzz.link "Putteria"): the grid is divided into regions.  Write a number into exactly one
cell of every region, the number being the size (cell count) of that region; equal numbers may not share a
row or a column; cells with numbers may not be orthogonally adjacent.  (Pre-crossed cells / given numbers of
the puzz.link format are not part of the solver's problem format.)

Problem format of solve_putteria(height, width, blocks): blocks is a list of regions, each a list of (y, x)
cells, together covering the grid.  Answer: height x width bools, True = the cell holds its region's number.
"""
import itertools

MODULE = "cspuz.puzzle.putteria"


def _blocks(inst):
    return [[(y, x) for (y, x) in b] for b in inst["blocks"]]


def run_real(mod, inst):
    h, w = inst["height"], inst["width"]
    is_sat, ans = mod.solve_putteria(h, w, _blocks(inst))
    return is_sat, {(y, x): ans[y, x].sol for y in range(h) for x in range(w)}


def solutions(inst):
    h, w = inst["height"], inst["width"]
    blocks = _blocks(inst)
    out = []
    for pick in itertools.product(*blocks):
        # pick[i] is the numbered cell of region i, its number is len(blocks[i])
        ok = True
        for i in range(len(pick)):
            for j in range(i + 1, len(pick)):
                (y1, x1), (y2, x2) = pick[i], pick[j]
                if abs(y1 - y2) + abs(x1 - x2) == 1:
                    ok = False
                if len(blocks[i]) == len(blocks[j]) and (y1 == y2 or x1 == x2):
                    ok = False
            if not ok:
                break
        if ok:
            chosen = set(pick)
            out.append({(y, x): (y, x) in chosen for y in range(h) for x in range(w)})
    return out


def classify(inst):
    h, w = inst["height"], inst["width"]
    shape = "1xN" if h == 1 else "Nx1" if w == 1 else "square" if h == w else "h>w" if h > w else "w>h"
    if any(len(b) == 1 for b in inst["blocks"]):
        shape += " with 1-cell region"
    return shape


def _random_partition(h, w, k, rnd):
    cells = [(y, x) for y in range(h) for x in range(w)]
    k = min(k, len(cells))
    seeds = rnd.sample(cells, k)
    owner = {c: i for i, c in enumerate(seeds)}
    while len(owner) < len(cells):
        frontier = []
        for (y, x), i in owner.items():
            for dy, dx in ((1, 0), (-1, 0), (0, 1), (0, -1)):
                c = (y + dy, x + dx)
                if 0 <= c[0] < h and 0 <= c[1] < w and c not in owner:
                    frontier.append((c, i))
        c, i = rnd.choice(frontier)
        owner[c] = i
    blocks = [[] for _ in range(k)]
    for c in cells:
        blocks[owner[c]].append(list(c))
    return blocks


def instances(tier, rnd):
    quick = tier == "quick"
    shapes = [(1, 1), (1, 2), (2, 1), (1, 4), (4, 1), (1, 6), (6, 1), (2, 2), (2, 3), (3, 2), (3, 3), (2, 5), (5, 2),
              (3, 4), (4, 3), (4, 4), (3, 5), (5, 3)]
    per = 7 if quick else 120
    for (h, w) in shapes:
        # the whole board as one region, and every cell its own region
        yield dict(height=h, width=w, blocks=[[[y, x] for y in range(h) for x in range(w)]])
        yield dict(height=h, width=w, blocks=[[[y, x]] for y in range(h) for x in range(w)])
        n = h * w
        if n < 3:
            continue
        for i in range(per):
            k = rnd.randint(2, max(2, min(n - 1, 1 + n // 2)))
            blocks = _random_partition(h, w, k, rnd)
            if i % 3 == 0:
                rnd.shuffle(blocks)
                for b in blocks:
                    rnd.shuffle(b)
            yield dict(height=h, width=w, blocks=blocks)


# /repo has no recorded Putteria instance (putteria.py _main() is `pass` without arguments, no test, no bench
# entry), so this is a hand-made 3x3 puzzle:
#     A A B
#     A C B
#     D D B        sizes A=3, B=3, C=1, D=2
# By hand: C's only cell (1,1) holds its 1, so its neighbours (0,1),(1,0),(1,2),(2,1) are empty.  A must
# then use (0,0); B's 3 may not share row 0 with A's 3, so B uses (2,2); D = {(2,0),(2,1)}: (2,1) is next to
# (1,1) and to (2,2), so D uses (2,0).  Check: (0,0),(1,1),(2,2),(2,0): no two adjacent; the two 3s sit in
# different rows and columns.  Unique.
_EX_BLOCKS = [[[0, 0], [0, 1], [1, 0]], [[0, 2], [1, 2], [2, 2]], [[1, 1]], [[2, 0], [2, 1]]]
_EX_TRUE = {(0, 0), (1, 1), (2, 2), (2, 0)}
EXAMPLES = [
    (dict(height=3, width=3, blocks=_EX_BLOCKS),
     {(y, x): (y, x) in _EX_TRUE for y in range(3) for x in range(3)}),
]
