"""Simple Loop oracle (puzz.link "Simple Loop" rules).

Rules: draw ONE closed loop (through cell centres, horizontal/vertical moves, no crossing or branching)
that passes through every white (non-blocked) cell exactly once and through no blocked cell.
Library convention: the empty set of segments also counts as a loop (possible only when every cell is
blocked).

Problem format of solve_simpleloop(height, width, blocked, pivot): blocked[y][x] is 1 for a blocked
cell and 0 otherwise; pivot = (y, x) names one cell whose entry in `blocked` is NOT read by the solver:
the cell is taken to be white iff the number of other white cells is odd (a loop on a grid has even
length).  generate_simpleloop() writes exactly that value into the returned problem
(generated[pivot] = 1 - num_pass % 2).  So the format can only express boards with an even number of
white cells; the instances below always carry the normalised value in blocked[pivot], and the oracle
reads `blocked` alone (it never looks at the pivot).
Answer: BoolGridFrame(height-1, width-1): horizontal[y, x] joins cells (y,x)-(y,x+1); vertical[y, x]
joins (y,x)-(y+1,x).
"""
import json

MODULE = "cspuz.puzzle.simpleloop"

_CYCLES = {}


def all_loops(P, Q):
    """all loops on a P x Q lattice of points: list of (H, V) with H[y][x] (P x (Q-1)) the segment
    (y,x)-(y,x+1) and V[y][x] ((P-1) x Q) the segment (y,x)-(y+1,x); includes the empty loop."""
    if (P, Q) in _CYCLES:
        return _CYCLES[(P, Q)]
    res = []

    def blank():
        return [[0] * (Q - 1) for _ in range(P)], [[0] * Q for _ in range(P - 1)]

    res.append(blank())

    def emit(path):
        H, V = blank()
        for i in range(len(path)):
            (y1, x1), (y2, x2) = path[i], path[(i + 1) % len(path)]
            if y1 == y2:
                H[y1][min(x1, x2)] = 1
            else:
                V[min(y1, y2)][x1] = 1
        res.append((H, V))

    # every simple cycle has a unique smallest point s (row-major); its two neighbours on the cycle
    # are then the point to the right and the point below.  Walk from s to the right, return from below.
    for sy in range(P - 1):
        for sx in range(Q - 1):
            s = (sy, sx)
            goal = (sy + 1, sx)
            seen = {s, (sy, sx + 1)}
            path = [s, (sy, sx + 1)]

            def dfs():
                y, x = path[-1]
                for ny, nx in ((y, x + 1), (y + 1, x), (y, x - 1), (y - 1, x)):
                    if not (0 <= ny < P and 0 <= nx < Q):
                        continue
                    if (ny, nx) <= s or (ny, nx) in seen:
                        continue
                    path.append((ny, nx))
                    if (ny, nx) == goal:
                        emit(path)
                    else:
                        seen.add((ny, nx))
                        dfs()
                        seen.discard((ny, nx))
                    path.pop()

            dfs()
    _CYCLES[(P, Q)] = res
    return res


def _dims(inst):
    return inst["height"], inst["width"]


def run_real(mod, inst):
    h, w = _dims(inst)
    is_sat, gf = mod.solve_simpleloop(h, w, inst["blocked"], tuple(inst["pivot"]))
    out = {}
    if is_sat:
        for y in range(h):
            for x in range(w - 1):
                out[("h", y, x)] = gf.horizontal[y, x].sol
        for y in range(h - 1):
            for x in range(w):
                out[("v", y, x)] = gf.vertical[y, x].sol
    return is_sat, out


def degree(h, w, H, V, y, x):
    d = 0
    if x > 0 and H[y][x - 1]:
        d += 1
    if x < w - 1 and H[y][x]:
        d += 1
    if y > 0 and V[y - 1][x]:
        d += 1
    if y < h - 1 and V[y][x]:
        d += 1
    return d


def obeys(inst, H, V):
    h, w = _dims(inst)
    b = inst["blocked"]
    for y in range(h):
        for x in range(w):
            on = degree(h, w, H, V, y, x) > 0
            if on == bool(b[y][x]):
                return False
    return True


def _as_dict(H, V):
    d = {}
    for y, row in enumerate(H):
        for x, v in enumerate(row):
            d[("h", y, x)] = bool(v)
    for y, row in enumerate(V):
        for x, v in enumerate(row):
            d[("v", y, x)] = bool(v)
    return d


def solutions(inst):
    h, w = _dims(inst)
    return [_as_dict(H, V) for (H, V) in all_loops(h, w) if obeys(inst, H, V)]


def classify(inst):
    h, w = _dims(inst)
    if h == 1 and w == 1:
        return "1x1 board"
    if h == 1 or w == 1:
        return "1xN board"
    return "square" if h == w else ("h>w" if h > w else "h<w")


def _normalise(h, w, b, pivot):
    """write the value the module's format implies into the pivot cell"""
    py, px = pivot
    n = sum(1 for y in range(h) for x in range(w) if (y, x) != (py, px) and b[y][x] == 0)
    b[py][px] = 1 - n % 2
    return b


def _instances(tier, rnd):
    quick = tier == "quick"
    sizes = [(1, 1), (1, 2), (1, 3), (2, 1), (2, 2), (2, 3), (3, 2), (3, 3), (3, 4), (4, 3), (4, 4)]
    if not quick:
        sizes += [(3, 1), (1, 4), (2, 4), (4, 2), (2, 5), (5, 2), (3, 5), (5, 3), (4, 5), (5, 4), (5, 5)]
    per = 9 if quick else 90
    for (h, w) in sizes:
        cells = [(y, x) for y in range(h) for x in range(w)]
        # all cells blocked / all cells white (as far as parity allows), every pivot on tiny boards
        for pivot in (cells if h * w <= 4 else [cells[0], cells[-1]]):
            yield dict(height=h, width=w, blocked=_normalise(h, w, [[1] * w for _ in range(h)], pivot),
                       pivot=list(pivot))
            yield dict(height=h, width=w, blocked=_normalise(h, w, [[0] * w for _ in range(h)], pivot),
                       pivot=list(pivot))
        loops = all_loops(h, w)
        for i in range(per if h * w > 2 else 0):
            pivot = rnd.choice(cells)
            if i % 3 != 2:
                # the white cells are exactly the cells of some loop (always solvable)
                H, V = rnd.choice(loops)
                b = [[0 if degree(h, w, H, V, y, x) else 1 for x in range(w)] for y in range(h)]
            else:
                k = rnd.randint(0, max(1, h * w // 3))
                b = [[0] * w for _ in range(h)]
                for (y, x) in rnd.sample(cells, k):
                    b[y][x] = 1
            if i % 6 == 1:
                y, x = rnd.choice(cells)
                b[y][x] = 1 - b[y][x]
            yield dict(height=h, width=w, blocked=_normalise(h, w, b, pivot), pivot=list(pivot))


def instances(tier, rnd):
    """the instances of _instances() without repetitions"""
    seen = set()
    for inst in _instances(tier, rnd):
        key = json.dumps(inst, sort_keys=True)
        if key not in seen:
            seen.add(key)
            yield inst


def _from_picture(rows):
    """rows: 2h-1 strings of width 2w-1; '-' / '|' between cells mark loop segments"""
    h = (len(rows) + 1) // 2
    w = (len(rows[0]) + 1) // 2
    H = [[1 if rows[2 * y][2 * x + 1] == "-" else 0 for x in range(w - 1)] for y in range(h)]
    V = [[1 if rows[2 * y + 1][2 * x] == "|" else 0 for x in range(w)] for y in range(h - 1)]
    return _as_dict(H, V)


# The module has no recorded example (_main without arguments does nothing, no tests, no bench entry), so
# a hand-made 4x4 puzzle is used.  Blocked: (0,0) and (1,2).  Uniqueness by hand: (0,1), (1,0), (0,2),
# (0,3), (1,3), (3,0), (3,3) have exactly two white neighbours each, which draws
# (1,1)-(0,1)-(0,2)-(0,3)-(1,3)-(2,3)-(3,3)-(3,2) and (1,1)-(1,0)-(2,0)-(3,0)-(3,1); (1,1), (2,0), (2,3)
# are then complete, so (2,1) is left with (2,2),(3,1) and (2,2) with (2,1),(3,2): one loop over all 14
# white cells, every step forced.
_EX = dict(height=4, width=4, blocked=[[1, 0, 0, 0], [0, 0, 1, 0], [0, 0, 0, 0], [0, 0, 0, 0]], pivot=[3, 3])
_SOL = _from_picture([
    "X o-o-o",
    "  |   |",
    "o-o X o",
    "|     |",
    "o o-o o",
    "| | | |",
    "o-o o-o",
])
EXAMPLES = [(_EX, _SOL)]
