"""Nurikabe oracle, written from the published rules (Nikoli / puzz.link):

  1. Every numbered cell is white (part of an island); '?' (-1) is a numbered cell of unknown value.
  2. Every island (orthogonally connected group of white cells) contains exactly one numbered cell and
     has exactly as many cells as that number ('?': any size; with the solver option unknown_low = L the
     island of a '?' has at least L cells).
  3. All black cells form one orthogonally connected group.
  4. No 2x2 block is entirely black.

Interpretation decisions (documented, see classify()):
  * "all black cells are connected" is taken literally: zero black cells is vacuously connected
    (this is also what the pzprjs answer checker of puzz.link does), hence e.g. a 1x2 board with the
    clue 2 has the all-white grid as its answer.
  * a board without any clue admits only the all-black grid, which is legal iff it has no 2x2 block.

Problem format of the real solver: solve_nurikabe(height, width, problem, unknown_low=None);
problem[y][x] = 0 empty, n >= 1 clue, -1 clue of unknown size.  Answer: is_white[y, x].
"""

MODULE = "cspuz.puzzle.nurikabe"

# Interpretation switch: True = a grid without any black cell satisfies rule 3 vacuously (pzprjs reading, used
# here); False = at least one black cell is required (what solve_nurikabe implements: division_connected is
# called without allow_empty_group, so the black group 0 must be non-empty).
ALLOW_ALL_WHITE = True


def run_real(mod, inst):
    h, w = inst["height"], inst["width"]
    kw = {}
    if inst.get("unknown_low") is not None:
        kw["unknown_low"] = inst["unknown_low"]
    is_sat, is_white = mod.solve_nurikabe(h, w, inst["problem"], **kw)
    if not is_sat:
        return False, {}
    return True, {(y, x): is_white[y, x].sol for y in range(h) for x in range(w)}


def _components(h, w, grid, value, upto=None):
    """orthogonal components of the cells with grid == value among rows < upto"""
    if upto is None:
        upto = h
    seen = set()
    comps = []
    for y in range(upto):
        for x in range(w):
            if grid[y][x] != value or (y, x) in seen:
                continue
            comp = []
            stack = [(y, x)]
            seen.add((y, x))
            while stack:
                cy, cx = stack.pop()
                comp.append((cy, cx))
                for ny, nx in ((cy - 1, cx), (cy + 1, cx), (cy, cx - 1), (cy, cx + 1)):
                    if 0 <= ny < upto and 0 <= nx < w and grid[ny][nx] == value and (ny, nx) not in seen:
                        seen.add((ny, nx))
                        stack.append((ny, nx))
            comps.append(comp)
    return comps


def _is_clue(v):
    return v >= 1 or v == -1


def check(h, w, problem, white, unknown_low=None):
    """full rule check of a complete grid; white[y][x] is True for island cells"""
    for y in range(h):
        for x in range(w):
            if _is_clue(problem[y][x]) and not white[y][x]:
                return False
    for y in range(h - 1):
        for x in range(w - 1):
            if not (white[y][x] or white[y][x + 1] or white[y + 1][x] or white[y + 1][x + 1]):
                return False
    blacks = _components(h, w, white, False)
    if len(blacks) > 1:
        return False
    if not blacks and not ALLOW_ALL_WHITE:
        return False
    for comp in _components(h, w, white, True):
        clues = [problem[y][x] for (y, x) in comp if _is_clue(problem[y][x])]
        if len(clues) != 1:
            return False
        c = clues[0]
        if c >= 1 and len(comp) != c:
            return False
        if c == -1 and unknown_low is not None and len(comp) < unknown_low:
            return False
    return True


def _row_prune(h, w, problem, grid, rows):
    """sound pruning after rows 0..rows-1 are decided (rows < h): False if no completion can be legal"""
    last = rows - 1
    for comp in _components(h, w, grid, True, upto=rows):
        clues = [problem[y][x] for (y, x) in comp if _is_clue(problem[y][x])]
        if len(clues) > 1:
            return False
        if clues and clues[0] >= 1 and len(comp) > clues[0]:
            return False
        closed = all(y != last for (y, x) in comp)
        if closed:
            if len(clues) != 1:
                return False
            if clues[0] >= 1 and len(comp) != clues[0]:
                return False
    blacks = _components(h, w, grid, False, upto=rows)
    if len(blacks) > 1:
        for comp in blacks:
            if all(y != last for (y, x) in comp):
                return False
    return True


def solutions(inst, limit=100000):
    h, w = inst["height"], inst["width"]
    problem = inst["problem"]
    low = inst.get("unknown_low")
    grid = [[None] * w for _ in range(h)]
    out = []

    def rec(k):
        if len(out) >= limit:
            return
        if k == h * w:
            if check(h, w, problem, grid, low):
                out.append({(y, x): grid[y][x] for y in range(h) for x in range(w)})
            return
        y, x = divmod(k, w)
        if x == 0 and 0 < y and h * w > 16:
            if not _row_prune(h, w, problem, grid, y):
                return
        for v in (True, False):
            if not v:
                if _is_clue(problem[y][x]):
                    continue
                if y > 0 and x > 0 and not (grid[y - 1][x - 1] or grid[y - 1][x] or grid[y][x - 1]):
                    continue
            grid[y][x] = v
            rec(k + 1)
            grid[y][x] = None

    rec(0)
    return out


def classify(inst):
    h, w = inst["height"], inst["width"]
    problem = inst["problem"]
    shape = "1xN board" if h == 1 or w == 1 else ("square" if h == w else ("h>w" if h > w else "h<w"))
    clues = [problem[y][x] for y in range(h) for x in range(w) if _is_clue(problem[y][x])]
    tags = [shape]
    if not clues:
        tags.append("no clue")
    if len(clues) == 1 and (clues[0] == h * w or clues[0] == -1):
        tags.append("all-white grid admissible")
    if -1 in clues:
        tags.append("has ?")
    if inst.get("unknown_low") is not None:
        tags.append("unknown_low")
    return ", ".join(tags)


def ambiguous(inst):
    """verdict depends on whether a grid without any black cell is legal (published rules are silent;
    pzpr accepts it, cspuz requires a black cell): not judged"""
    return "all-white grid admissible" in classify(inst)


_SHAPES_QUICK = [(1, 2), (1, 3), (1, 5), (2, 1), (4, 1), (2, 2), (2, 3), (3, 2), (3, 3), (2, 4), (4, 2), (2, 5),
                 (3, 4), (4, 3)]
_SHAPES_MORE = [(1, 4), (1, 7), (6, 1), (5, 2), (2, 6), (6, 2), (1, 12), (3, 1)]


def _random_solution_grid(h, w, rnd):
    """random white/black pattern whose black part is connected (or empty) and has no 2x2 block"""
    for _ in range(2000):
        p = rnd.choice([0.3, 0.5, 0.7])
        white = [[rnd.random() < p for _ in range(w)] for _ in range(h)]
        ok = len(_components(h, w, white, False)) <= 1
        for y in range(h - 1):
            for x in range(w - 1):
                if not (white[y][x] or white[y][x + 1] or white[y + 1][x] or white[y + 1][x + 1]):
                    ok = False
        if ok:
            return white
    return [[True] * w for _ in range(h)]


def _derived(h, w, rnd):
    white = _random_solution_grid(h, w, rnd)
    problem = [[0] * w for _ in range(h)]
    for comp in _components(h, w, white, True):
        y, x = rnd.choice(comp)
        problem[y][x] = len(comp)
    return problem


def _mutate(h, w, problem, rnd):
    problem = [row[:] for row in problem]
    cells = [(y, x) for y in range(h) for x in range(w)]
    clue_cells = [c for c in cells if problem[c[0]][c[1]] != 0]
    kind = rnd.randrange(6)
    if kind == 0 and clue_cells:                     # change a number
        y, x = rnd.choice(clue_cells)
        problem[y][x] = max(1, problem[y][x] + rnd.choice([-1, 1, 2]))
    elif kind == 1 and clue_cells:                   # number -> ?
        for (y, x) in clue_cells:
            if rnd.random() < 0.6:
                problem[y][x] = -1
    elif kind == 2 and clue_cells:                   # drop a clue
        y, x = rnd.choice(clue_cells)
        problem[y][x] = 0
    elif kind == 3:                                  # extra clue
        y, x = rnd.choice(cells)
        problem[y][x] = rnd.choice([1, 1, 2, 3, -1])
    elif kind == 4 and clue_cells:                   # move a clue to a neighbouring cell
        y, x = rnd.choice(clue_cells)
        ny, nx = rnd.choice([(y - 1, x), (y + 1, x), (y, x - 1), (y, x + 1)])
        if 0 <= ny < h and 0 <= nx < w and problem[ny][nx] == 0:
            problem[ny][nx], problem[y][x] = problem[y][x], 0
    return problem


def instances(tier, rnd):
    quick = tier == "quick"
    # fixed corner cases
    yield dict(height=1, width=1, problem=[[0]])
    yield dict(height=1, width=1, problem=[[1]])
    yield dict(height=1, width=1, problem=[[-1]])
    yield dict(height=1, width=1, problem=[[2]])
    yield dict(height=1, width=2, problem=[[2, 0]])
    yield dict(height=1, width=2, problem=[[1, 0]])
    yield dict(height=1, width=2, problem=[[1, 1]])
    yield dict(height=2, width=1, problem=[[0], [0]])
    yield dict(height=1, width=3, problem=[[1, 0, 1]])
    yield dict(height=1, width=3, problem=[[0, 0, 0]])
    yield dict(height=2, width=2, problem=[[0, 0], [0, 0]])
    yield dict(height=2, width=2, problem=[[4, 0], [0, 0]])
    yield dict(height=2, width=2, problem=[[1, 0], [0, 0]])
    yield dict(height=2, width=2, problem=[[-1, 0], [0, 0]])
    yield dict(height=2, width=2, problem=[[-1, 0], [0, 0]], unknown_low=2)
    yield dict(height=2, width=2, problem=[[-1, 0], [0, 0]], unknown_low=5)
    yield dict(height=2, width=3, problem=[[0, 0, 0], [0, 0, 0]])
    yield dict(height=3, width=3, problem=[[1, 0, 0], [0, 0, 0], [0, 0, 1]])
    yield dict(height=3, width=3, problem=[[0, 0, 0], [0, 9, 0], [0, 0, 0]])
    yield dict(height=3, width=3, problem=[[0, 0, 0], [0, 10, 0], [0, 0, 0]])
    shapes = _SHAPES_QUICK if quick else _SHAPES_QUICK + _SHAPES_MORE
    per_shape = 6 if quick else 90
    for (h, w) in shapes:
        for i in range(per_shape):
            r = i % 6
            if r in (0, 1):
                problem = _derived(h, w, rnd)
            elif r in (2, 3, 4):
                problem = _mutate(h, w, _derived(h, w, rnd), rnd)
            else:
                problem = [[rnd.choice([0, 0, 0, 0, 1, 2, 3, -1]) for _ in range(w)] for _ in range(h)]
            inst = dict(height=h, width=w, problem=problem)
            if any(-1 in row for row in problem) and rnd.random() < 0.5:
                inst["unknown_low"] = rnd.choice([1, 2, 3])
            yield inst
        # satisfiable boards that MIX numbered islands with `?` islands (derived from a solution grid with at least
        # two islands; a non-empty proper subset of the clues becomes `?`)
        for i in range(3 if quick else 30):
            for _ in range(30):
                problem = _derived(h, w, rnd)
                clue_cells = [(y, x) for y in range(h) for x in range(w) if problem[y][x] != 0]
                if len(clue_cells) >= 2:
                    break
            else:
                continue
            k = rnd.randrange(1, len(clue_cells))
            for (y, x) in rnd.sample(clue_cells, k):
                problem[y][x] = -1
            yield dict(height=h, width=w, problem=problem)


# The repository's only recorded nurikabe problem (nurikabe.main(), also tests/test_serializer.py) is a 10x10
# board with the clues 7,7,7,7,7,7,9 and no recorded answer - far beyond brute force.  Two hand-made
# replacements whose unique answers were derived by hand (and are re-checked exhaustively by validate()):
#
#   A)  1 . 1     the four 1-islands are complete, so the four edge-middle cells are black; the centre
#       . . .     would be an island without number if white, so it is black.        . # .
#       1 . 1                                                                        # # #
#                                                                                    . # .
#   B)  1 . . .   (0,0)=1: (0,1),(1,0) black.  (2,2)=1: (1,2),(2,1),(2,3),(3,2) black.  The 3-island of (1,3)
#       . . . 3   can only grow through (0,3) and then (0,2): {(1,3),(0,3),(0,2)}.  Black (2,3) reaches the other
#       . . 1 .   black cells only via (3,3),(3,2),(3,1), so those are black and the 2-island is {(3,0),(2,0)}.
#       2 . . .   (1,1) would be a numberless island, so it is black.       . # . .
#                                                                           # # # .
#                                                                           . # . #
#                                                                           . # # #
EXAMPLES_NOT_UNIQUE = False


def _example(clue_rows, answer_rows):
    h, w = len(clue_rows), len(clue_rows[0])
    inst = dict(height=h, width=w, problem=[list(r) for r in clue_rows])
    sol = {(y, x): answer_rows[y][x] == "." for y in range(h) for x in range(w)}
    return inst, sol


EXAMPLES = [
    _example([[1, 0, 1], [0, 0, 0], [1, 0, 1]], [".#.", "###", ".#."]),
    _example([[1, 0, 0, 0], [0, 0, 0, 3], [0, 0, 1, 0], [2, 0, 0, 0]], [".#..", "###.", ".#.#", ".###"]),
]
