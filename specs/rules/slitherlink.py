"""Slitherlink oracle (Nikoli rules).

Rules: draw lines along the dotted lattice so that they form ONE closed loop that neither crosses
itself nor branches; a number in a cell says how many of that cell's four sides are loop segments;
cells without a number may have any number of sides drawn.
Library convention (cspuz/graph.py active_edges_single_cycle): the empty set of segments also counts
as a loop.

Problem format of solve_slitherlink(height, width, problem): problem[y][x] == -1 (any negative) means
no clue, otherwise the clue value.  Answer: BoolGridFrame(height, width): horizontal[y, x]
(shape (height+1, width)) joins lattice points (y,x)-(y,x+1); vertical[y, x] (shape (height, width+1))
joins (y,x)-(y+1,x).

The oracle enumerates every simple cycle of the (height+1) x (width+1) lattice graph (plus the empty
loop) and keeps those matching the clues.
"""
import json

MODULE = "cspuz.puzzle.slitherlink"

_CYCLES = {}


def all_loops(P, Q):
    """all loops on a P x Q lattice of points: list of (H, V) with H[y][x] (P x (Q-1)) the segment
    (y,x)-(y,x+1) and V[y][x] ((P-1) x Q) the segment (y,x)-(y+1,x); includes the empty loop."""
    if (P, Q) in _CYCLES:
        return _CYCLES[(P, Q)]
    res = []

    def blank():
        return [[0] * (Q - 1) for _ in range(P)], [[0] * Q for _ in range(P - 1)]

    res.append(blank())

    def emit(path):
        H, V = blank()
        for i in range(len(path)):
            (y1, x1), (y2, x2) = path[i], path[(i + 1) % len(path)]
            if y1 == y2:
                H[y1][min(x1, x2)] = 1
            else:
                V[min(y1, y2)][x1] = 1
        res.append((H, V))

    # every simple cycle has a unique smallest point s (row-major); its two neighbours on the cycle
    # are then the point to the right and the point below.  Walk from s to the right, return from below.
    for sy in range(P - 1):
        for sx in range(Q - 1):
            s = (sy, sx)
            goal = (sy + 1, sx)
            seen = {s, (sy, sx + 1)}
            path = [s, (sy, sx + 1)]

            def dfs():
                y, x = path[-1]
                for ny, nx in ((y, x + 1), (y + 1, x), (y, x - 1), (y - 1, x)):
                    if not (0 <= ny < P and 0 <= nx < Q):
                        continue
                    if (ny, nx) <= s or (ny, nx) in seen:
                        continue
                    path.append((ny, nx))
                    if (ny, nx) == goal:
                        emit(path)
                    else:
                        seen.add((ny, nx))
                        dfs()
                        seen.discard((ny, nx))
                    path.pop()

            dfs()
    _CYCLES[(P, Q)] = res
    return res


def _dims(inst):
    return inst["height"], inst["width"]


def run_real(mod, inst):
    h, w = _dims(inst)
    is_sat, gf = mod.solve_slitherlink(h, w, inst["problem"])
    out = {}
    if is_sat:
        for y in range(h + 1):
            for x in range(w):
                out[("h", y, x)] = gf.horizontal[y, x].sol
        for y in range(h):
            for x in range(w + 1):
                out[("v", y, x)] = gf.vertical[y, x].sol
    return is_sat, out


def obeys(inst, H, V):
    h, w = _dims(inst)
    p = inst["problem"]
    for y in range(h):
        for x in range(w):
            if p[y][x] >= 0:
                if H[y][x] + H[y + 1][x] + V[y][x] + V[y][x + 1] != p[y][x]:
                    return False
    return True


def _as_dict(H, V):
    d = {}
    for y, row in enumerate(H):
        for x, v in enumerate(row):
            d[("h", y, x)] = bool(v)
    for y, row in enumerate(V):
        for x, v in enumerate(row):
            d[("v", y, x)] = bool(v)
    return d


def solutions(inst):
    h, w = _dims(inst)
    return [_as_dict(H, V) for (H, V) in all_loops(h + 1, w + 1) if obeys(inst, H, V)]


def classify(inst):
    h, w = _dims(inst)
    if h == 1 and w == 1:
        return "1x1 board"
    if h == 1 or w == 1:
        return "1xN board"
    return "square" if h == w else ("h>w" if h > w else "h<w")


def _clues_of(h, w, H, V):
    return [[H[y][x] + H[y + 1][x] + V[y][x] + V[y][x + 1] for x in range(w)] for y in range(h)]


def _instances(tier, rnd):
    quick = tier == "quick"
    sizes = [(1, 1), (1, 2), (2, 1), (1, 3), (3, 1), (1, 4), (2, 2), (2, 3), (3, 2), (3, 3)]
    if not quick:
        sizes += [(4, 1), (1, 5), (2, 4), (4, 2), (3, 4), (4, 3)]
    per = 13 if quick else 120
    for (h, w) in sizes:
        # fixed instances: no clue at all, all zero, every single-cell clue value on tiny boards
        yield dict(height=h, width=w, problem=[[-1] * w for _ in range(h)])
        yield dict(height=h, width=w, problem=[[0] * w for _ in range(h)])
        if h * w <= 2:
            for v in range(0, 6):
                p = [[-1] * w for _ in range(h)]
                p[h - 1][w - 1] = v
                yield dict(height=h, width=w, problem=p)
        loops = all_loops(h + 1, w + 1)
        for i in range(per):
            H, V = rnd.choice(loops) if i % 4 else loops[0]
            full = _clues_of(h, w, H, V)
            dens = rnd.choice([0.2, 0.5, 0.8, 1.0])
            p = [[full[y][x] if rnd.random() < dens else -1 for x in range(w)] for y in range(h)]
            mode = i % 3
            if mode == 1:
                # perturb one cell (often contradictory, sometimes still solvable)
                y, x = rnd.randrange(h), rnd.randrange(w)
                p[y][x] = rnd.randint(0, 4)
            elif mode == 2 and i % 2:
                # fully random clues
                p = [[rnd.choice([-1, -1, 0, 1, 2, 3]) for x in range(w)] for y in range(h)]
            yield dict(height=h, width=w, problem=p)


def instances(tier, rnd):
    """the instances of _instances() without repetitions"""
    seen = set()
    for inst in _instances(tier, rnd):
        key = json.dumps(inst, sort_keys=True)
        if key not in seen:
            seen.add(key)
            yield inst


# the module's own _main() example (http://pzv.jp/p.html?slither/4/4/dgdh2c7b), also used in
# tests/test_serializer.py.  Unique solution, drawn by hand:
#   +--+--+--+--+
#   |  .  .  .  |
#   +--+  +--+  +
#   .  |  |  |  |
#   +--+  +  +  +
#   |  .  |  |  |
#   +  +--+  +--+
#   |  |  .  .  .
#   +--+  +  +  +
_EX_PROBLEM = [
    [3, -1, -1, -1],
    [3, -1, -1, -1],
    [-1, 2, 2, -1],
    [-1, 2, -1, 1],
]
_EX_H = [
    [1, 1, 1, 1],
    [1, 0, 1, 0],
    [1, 0, 0, 0],
    [0, 1, 0, 1],
    [1, 0, 0, 0],
]
_EX_V = [
    [1, 0, 0, 0, 1],
    [0, 1, 1, 1, 1],
    [1, 0, 1, 1, 1],
    [1, 1, 0, 0, 0],
]
EXAMPLES = [(dict(height=4, width=4, problem=_EX_PROBLEM), _as_dict(_EX_H, _EX_V))]
