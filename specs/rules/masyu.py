"""Masyu oracle (Nikoli rules).

Rules: draw ONE closed loop through the centres of cells, moving horizontally/vertically, never
crossing or branching; the loop need not visit every cell but must pass through every circle.
White circle: the loop goes straight through it and turns in at least one of the two cells just
before/after it.  Black circle: the loop turns on it and goes straight through the cells just
before and after it.
Library convention: the empty set of segments also counts as a loop (possible only without circles).

Problem format of solve_masyu(height, width, problem): 0 = empty, 1 = white circle, 2 = black circle.
Answer: BoolGridFrame(height-1, width-1): horizontal[y, x] (shape (height, width-1)) joins cells
(y,x)-(y,x+1); vertical[y, x] (shape (height-1, width)) joins (y,x)-(y+1,x).
"""
import json

MODULE = "cspuz.puzzle.masyu"

_CYCLES = {}


def all_loops(P, Q):
    """all loops on a P x Q lattice of points: list of (H, V) with H[y][x] (P x (Q-1)) the segment
    (y,x)-(y,x+1) and V[y][x] ((P-1) x Q) the segment (y,x)-(y+1,x); includes the empty loop."""
    if (P, Q) in _CYCLES:
        return _CYCLES[(P, Q)]
    res = []

    def blank():
        return [[0] * (Q - 1) for _ in range(P)], [[0] * Q for _ in range(P - 1)]

    res.append(blank())

    def emit(path):
        H, V = blank()
        for i in range(len(path)):
            (y1, x1), (y2, x2) = path[i], path[(i + 1) % len(path)]
            if y1 == y2:
                H[y1][min(x1, x2)] = 1
            else:
                V[min(y1, y2)][x1] = 1
        res.append((H, V))

    # every simple cycle has a unique smallest point s (row-major); its two neighbours on the cycle
    # are then the point to the right and the point below.  Walk from s to the right, return from below.
    for sy in range(P - 1):
        for sx in range(Q - 1):
            s = (sy, sx)
            goal = (sy + 1, sx)
            seen = {s, (sy, sx + 1)}
            path = [s, (sy, sx + 1)]

            def dfs():
                y, x = path[-1]
                for ny, nx in ((y, x + 1), (y + 1, x), (y, x - 1), (y - 1, x)):
                    if not (0 <= ny < P and 0 <= nx < Q):
                        continue
                    if (ny, nx) <= s or (ny, nx) in seen:
                        continue
                    path.append((ny, nx))
                    if (ny, nx) == goal:
                        emit(path)
                    else:
                        seen.add((ny, nx))
                        dfs()
                        seen.discard((ny, nx))
                    path.pop()

            dfs()
    _CYCLES[(P, Q)] = res
    return res


def _dims(inst):
    return inst["height"], inst["width"]


def run_real(mod, inst):
    h, w = _dims(inst)
    is_sat, gf = mod.solve_masyu(h, w, inst["problem"])
    out = {}
    if is_sat:
        for y in range(h):
            for x in range(w - 1):
                out[("h", y, x)] = gf.horizontal[y, x].sol
        for y in range(h - 1):
            for x in range(w):
                out[("v", y, x)] = gf.vertical[y, x].sol
    return is_sat, out


_STEP = {"U": (-1, 0), "D": (1, 0), "L": (0, -1), "R": (0, 1)}


def dirs_at(h, w, H, V, y, x):
    """set of directions in which the loop leaves cell (y, x)"""
    d = set()
    if x > 0 and H[y][x - 1]:
        d.add("L")
    if x < w - 1 and H[y][x]:
        d.add("R")
    if y > 0 and V[y - 1][x]:
        d.add("U")
    if y < h - 1 and V[y][x]:
        d.add("D")
    return d


def _straight(d):
    return d == {"L", "R"} or d == {"U", "D"}


def obeys(inst, H, V):
    h, w = _dims(inst)
    p = inst["problem"]
    for y in range(h):
        for x in range(w):
            if p[y][x] not in (1, 2):
                continue
            d = dirs_at(h, w, H, V, y, x)
            if len(d) != 2:
                return False          # every circle is on the loop
            nb = []
            for c in d:
                dy, dx = _STEP[c]
                nb.append(dirs_at(h, w, H, V, y + dy, x + dx))
            if p[y][x] == 1:
                if not _straight(d):
                    return False
                if all(_straight(n) for n in nb):
                    return False      # must turn right before or right after
            else:
                if _straight(d):
                    return False
                if not all(_straight(n) for n in nb):
                    return False
    return True


def _as_dict(H, V):
    d = {}
    for y, row in enumerate(H):
        for x, v in enumerate(row):
            d[("h", y, x)] = bool(v)
    for y, row in enumerate(V):
        for x, v in enumerate(row):
            d[("v", y, x)] = bool(v)
    return d


def solutions(inst):
    h, w = _dims(inst)
    return [_as_dict(H, V) for (H, V) in all_loops(h, w) if obeys(inst, H, V)]


def classify(inst):
    h, w = _dims(inst)
    if h == 1 and w == 1:
        return "1x1 board"
    if h == 1 or w == 1:
        return "1xN board"
    return "square" if h == w else ("h>w" if h > w else "h<w")


def _possible_circles(h, w, H, V):
    """for each cell: the circle kinds (1/2) that the given loop would satisfy there"""
    res = {}
    for y in range(h):
        for x in range(w):
            ks = []
            for k in (1, 2):
                p = [[0] * w for _ in range(h)]
                p[y][x] = k
                if obeys(dict(height=h, width=w, problem=p), H, V):
                    ks.append(k)
            if ks:
                res[(y, x)] = ks
    return res


def _instances(tier, rnd):
    quick = tier == "quick"
    sizes = [(1, 1), (1, 3), (3, 1), (2, 2), (2, 3), (3, 2), (3, 3), (3, 4), (4, 3), (4, 4)]
    if not quick:
        sizes += [(1, 2), (2, 1), (1, 4), (2, 4), (4, 2), (2, 5), (5, 2), (3, 5), (5, 3), (4, 5), (5, 4)]
    per = 14 if quick else 110
    for (h, w) in sizes:
        yield dict(height=h, width=w, problem=[[0] * w for _ in range(h)])
        if h * w <= 3:
            for k in (1, 2):
                for y in range(h):
                    for x in range(w):
                        p = [[0] * w for _ in range(h)]
                        p[y][x] = k
                        yield dict(height=h, width=w, problem=p)
        loops = all_loops(h, w)
        for i in range(per if h * w > 3 else 0):
            H, V = rnd.choice(loops)
            poss = _possible_circles(h, w, H, V)
            p = [[0] * w for _ in range(h)]
            dens = rnd.choice([0.3, 0.6, 1.0, 1.0])
            for (y, x), ks in poss.items():
                if rnd.random() < dens:
                    p[y][x] = rnd.choice(ks)
            mode = i % 4
            if mode == 1:
                y, x = rnd.randrange(h), rnd.randrange(w)
                p[y][x] = rnd.choice([1, 2])          # extra circle, often contradictory
            elif mode == 2:
                p = [[rnd.choice([0, 0, 0, 0, 1, 2]) for x in range(w)] for y in range(h)]
            elif mode == 3 and i % 8 == 3:
                # circles on the board edge / corners only
                p = [[0] * w for _ in range(h)]
                for _ in range(rnd.randint(1, 3)):
                    y, x = rnd.choice([0, h - 1]), rnd.randrange(w)
                    p[y][x] = rnd.choice([1, 2])
            yield dict(height=h, width=w, problem=p)


def instances(tier, rnd):
    """the instances of _instances() without repetitions"""
    seen = set()
    for inst in _instances(tier, rnd):
        key = json.dumps(inst, sort_keys=True)
        if key not in seen:
            seen.add(key)
            yield inst


def _from_picture(rows):
    """rows: 2h-1 strings of width 2w-1; '-' between horizontally adjacent cells and '|' between
    vertically adjacent cells mark loop segments"""
    h = (len(rows) + 1) // 2
    w = (len(rows[0]) + 1) // 2
    H = [[1 if rows[2 * y][2 * x + 1] == "-" else 0 for x in range(w - 1)] for y in range(h)]
    V = [[1 if rows[2 * y + 1][2 * x] == "|" else 0 for x in range(w)] for y in range(h - 1)]
    return _as_dict(H, V)


# The module's own example (_main, 10x10, puzsq pid 9833) is far beyond exhaustive enumeration, so
# hand-made puzzles are recorded instead; their uniqueness was argued by hand:
#  (a) 3x3, black circle in the corner (0,0) and white circle at (1,2).  The black corner forces
#      (0,2)-(0,1)-(0,0)-(1,0)-(2,0); the white circle cannot be crossed horizontally (board edge), so
#      (0,2)-(1,2)-(2,2) is forced; (2,2) then needs (2,1), which closes the ring around the centre.
#  (b) 4x4, black circles at (0,1) and (3,3), white circle at (2,1).  The black corner (3,3) forces
#      (3,1)-(3,2)-(3,3)-(2,3)-(1,3).  The black circle (0,1) cannot leave upwards, nor to the left
#      (two cells are needed), so (2,1)-(1,1)-(0,1)-(0,2)-(0,3) is forced.  The white circle (2,1) is
#      entered from (1,1), so it continues to (3,1).  (0,3) needs a second segment: only (1,3) is left,
#      which closes the loop; every step was forced.
_EX_A = dict(height=3, width=3, problem=[[2, 0, 0], [0, 0, 1], [0, 0, 0]])
_SOL_A = _from_picture([
    "O-O-O",
    "|   |",
    "O . O",
    "|   |",
    "O-O-O",
])
_EX_B = dict(height=4, width=4, problem=[[0, 2, 0, 0], [0, 0, 0, 0], [0, 1, 0, 0], [0, 0, 0, 2]])
_SOL_B = _from_picture([
    "O B-O-O",
    "  |   |",
    "O O O O",
    "  |   |",
    "O W O O",
    "  |   |",
    "O O-O-B",
])
EXAMPLES = [(_EX_A, _SOL_A), (_EX_B, _SOL_B)]
