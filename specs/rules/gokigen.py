"""Gokigen Naname (Slant) oracle (Nikoli rules).

1. Draw exactly one diagonal line into every cell.
2. A number on a grid point is the number of diagonals that end in this point.
3. The diagonals never form a closed loop.

Problem format (solve_gokigen(height, width, problem)): problem is (height+1) x (width+1), indexed by
grid point; -1 = no clue, 0..4 = clue.  Answer: edge_type[y, x]; True is the diagonal "\\" joining the
points (y, x) and (y+1, x+1), False is "/" joining (y, x+1) and (y+1, x) (comment in solve_gokigen and
the printing table of _main()).
"""

MODULE = "cspuz.puzzle.gokigen"


def run_real(mod, inst):
    h, w = inst["height"], inst["width"]
    is_sat, ans = mod.solve_gokigen(h, w, inst["problem"])
    if not is_sat:
        return is_sat, {}
    return is_sat, {(y, x): ans[y, x].sol for y in range(h) for x in range(w)}


def _ends(y, x, back):
    """the two grid points joined by the diagonal of cell (y, x)"""
    return ((y, x), (y + 1, x + 1)) if back else ((y, x + 1), (y + 1, x))


def solutions(inst, limit=100000):
    h, w = inst["height"], inst["width"]
    p = inst["problem"]
    N = h * w
    val = {}                  # cell -> True ("\") / False ("/")
    deg = {}                  # grid point -> number of diagonals ending there so far
    adj = {}                  # grid point -> list of joined grid points
    out = []

    def remaining(py, px, k):
        """cells touching point (py, px) that are not assigned yet (cells with index >= k)"""
        return sum(1 for y in (py - 1, py) for x in (px - 1, px)
                   if 0 <= y < h and 0 <= x < w and y * w + x >= k)

    def joined(a, b):
        st = [a]
        seen = {a}
        while st:
            u = st.pop()
            if u == b:
                return True
            for v in adj.get(u, ()):
                if v not in seen:
                    seen.add(v)
                    st.append(v)
        return False

    def rec(k):
        if len(out) >= limit:
            return
        if k == N:
            out.append(dict(val))
            return
        y, x = divmod(k, w)
        for back in (True, False):
            a, b = _ends(y, x, back)
            if joined(a, b):
                continue          # would close a loop (rule 3)
            val[(y, x)] = back
            deg[a] = deg.get(a, 0) + 1
            deg[b] = deg.get(b, 0) + 1
            adj.setdefault(a, []).append(b)
            adj.setdefault(b, []).append(a)
            ok = True
            for (py, px) in ((y, x), (y, x + 1), (y + 1, x), (y + 1, x + 1)):
                n = p[py][px]
                if n >= 0:
                    d = deg.get((py, px), 0)
                    r = remaining(py, px, k + 1)
                    if d > n or d + r < n:
                        ok = False
                        break
            if ok:
                rec(k + 1)
            adj[a].pop()
            adj[b].pop()
            deg[a] -= 1
            deg[b] -= 1
            del val[(y, x)]

    if N == 0:
        return out
    rec(0)
    return out


def classify(inst):
    h, w = inst["height"], inst["width"]
    return "1x1" if h * w == 1 else "1xN" if h == 1 else "Nx1" if w == 1 else "square" if h == w else "h>w" if h > w else "w>h"


def _clues_of(h, w, val):
    full = [[0] * (w + 1) for _ in range(h + 1)]
    for (y, x), back in val.items():
        for (py, px) in _ends(y, x, back):
            full[py][px] += 1
    return full


_CACHE = {}


def _all(h, w):
    if (h, w) not in _CACHE:
        _CACHE[(h, w)] = solutions(dict(height=h, width=w, problem=[[-1] * (w + 1) for _ in range(h + 1)]))
    return _CACHE[(h, w)]


def instances(tier, rnd):
    quick = tier == "quick"
    shapes = [(1, 1), (1, 2), (2, 1), (1, 4), (4, 1), (2, 2), (2, 3), (3, 2), (3, 3), (2, 4), (4, 2)]
    if not quick:
        shapes += [(1, 3), (3, 1), (1, 7), (7, 1), (2, 5), (5, 2), (3, 4), (4, 3)]
    per = 10 if quick else 110
    for (h, w) in shapes:
        yield dict(height=h, width=w, problem=[[-1] * (w + 1) for _ in range(h + 1)])
        cells = [(y, x) for y in range(h) for x in range(w)]
        points = [(y, x) for y in range(h + 1) for x in range(w + 1)]
        base = _all(h, w)
        n = min(per, 3 + 2 * h * w) if quick else min(per, 4 + 10 * h * w)
        for i in range(n):
            mode = i % 6
            if mode <= 3:
                full = _clues_of(h, w, rnd.choice(base))          # loop-free answer
                k = rnd.randint(0, len(points))
                prob = [[-1] * (w + 1) for _ in range(h + 1)]
                for (y, x) in rnd.sample(points, k):
                    prob[y][x] = full[y][x]
                if mode == 3:
                    y, x = rnd.choice(points)       # perturbed clue: frequently unsatisfiable
                    prob[y][x] = rnd.randint(0, 4)
            elif mode == 4:
                # clues of an arbitrary assignment, loops allowed: tests rule 3
                v = {c: rnd.random() < 0.5 for c in cells}
                prob = _clues_of(h, w, v)
                for (y, x) in rnd.sample(points, rnd.randint(0, len(points) // 2)):
                    prob[y][x] = -1
            else:
                prob = [[rnd.choice([-1, -1, -1, 0, 1, 2, 3, 4]) for _ in range(w + 1)] for _ in range(h + 1)]
            yield dict(height=h, width=w, problem=prob)


# --- recorded example: gokigen._main() (https://puzsq.sakura.ne.jp/main/puzzle_play.php?pid=7862) ---
_EX_PROBLEM = [
    [-1, -1, -1, -1, -1, -1, -1, -1],
    [-1,  3, -1,  2,  3, -1,  3, -1],
    [-1, -1,  1, -1, -1,  1, -1, -1],
    [-1, -1, -1, -1,  3,  2, -1, -1],
    [-1,  3, -1,  3,  2, -1,  3, -1],
    [-1, -1,  1, -1, -1,  1, -1, -1],
    [-1,  3, -1, -1,  3, -1,  3, -1],
    [-1, -1, -1, -1, -1, -1, -1, -1],
]
# The repository records only the problem; this answer is what the oracle finds as the unique
# rule-obeying grid (validate() re-checks uniqueness and the agreement with the real solver).
_EX_ANSWER = [
    "\\/\\\\/\\/",
    "/////\\\\",
    "\\\\/////",
    "\\/\\/\\\\/",
    "////\\\\\\",
    "\\\\/\\\\//",
    "/\\//\\/\\",
]
EXAMPLES = [(dict(height=7, width=7, problem=_EX_PROBLEM),
             {(y, x): _EX_ANSWER[y][x] == "\\" for y in range(7) for x in range(7)})]
