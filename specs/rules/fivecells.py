"""FiveCells oracle.

Published rules (Nikoli "FiveCells", puzz.link "FiveCells"): divide the board into regions of exactly five
(orthogonally connected) cells.  A number in a cell tells how many of the four sides of that cell are region
border lines; the outer border of the board counts as a line.

Problem format of solve_fivecells(height, width, problem): problem[y][x] >= 0 is a number clue, -1 an empty
cell, anything <= -2 a hole (the cell is not part of the board, so a side towards it is outer border).
Answer: a flat BoolArray over the pairs of orthogonally adjacent board cells, True = the two cells are in
different regions (a border line between them).  The pairs are numbered in the order the solver adds them to
its graph: cells row by row, for each cell first the pair with the cell below, then with the cell to the right.
Oracle keys: ("d", y, x) = border between (y, x) and (y+1, x); ("r", y, x) = border between (y, x) and (y, x+1).
"""

MODULE = "cspuz.puzzle.fivecells"


def _edges(inst):
    h, w, p = inst["height"], inst["width"], inst["problem"]
    e = []
    for y in range(h):
        for x in range(w):
            if p[y][x] >= -1:
                if y < h - 1 and p[y + 1][x] >= -1:
                    e.append(("d", y, x))
                if x < w - 1 and p[y][x + 1] >= -1:
                    e.append(("r", y, x))
    return e


def run_real(mod, inst):
    is_sat, is_border = mod.solve_fivecells(inst["height"], inst["width"], inst["problem"])
    keys = _edges(inst)
    vals = [v.sol for v in is_border]
    if len(vals) != len(keys):
        raise AssertionError("solver reports %d borders, the board has %d adjacent cell pairs" % (len(vals), len(keys)))
    return is_sat, dict(zip(keys, vals))


def _pentominoes(first, free):
    """all connected 5-cell sets made of `first` and cells of `free`"""
    def rec(region, excluded):
        if len(region) == 5:
            yield region
            return
        cand = None
        for (y, x) in sorted(region):
            for c in ((y + 1, x), (y - 1, x), (y, x + 1), (y, x - 1)):
                if c in free and c not in region and c not in excluded:
                    cand = c
                    break
            if cand:
                break
        if cand is None:
            return
        yield from rec(region | {cand}, excluded)
        yield from rec(region, excluded | {cand})

    yield from rec(frozenset([first]), frozenset())


def _clue_ok(y, x, want, owner):
    """number of border sides of (y, x), given the regions of all four neighbours are known"""
    me = owner[(y, x)]
    lines = 0
    for c in ((y + 1, x), (y - 1, x), (y, x + 1), (y, x - 1)):
        if owner.get(c, "outside") != me:
            lines += 1
    return lines == want


def solutions(inst, limit=50000):
    h, w, p = inst["height"], inst["width"], inst["problem"]
    cells = [(y, x) for y in range(h) for x in range(w) if p[y][x] >= -1]
    keys = _edges(inst)
    out = []
    if len(cells) % 5 != 0:
        return out

    def rec(free, owner, nreg):
        if len(out) >= limit:
            return
        if not free:
            if all(_clue_ok(y, x, p[y][x], owner) for (y, x) in cells if p[y][x] >= 0):
                sol = {}
                for (kind, y, x) in keys:
                    other = (y + 1, x) if kind == "d" else (y, x + 1)
                    sol[(kind, y, x)] = owner[(y, x)] != owner[other]
                out.append(sol)
            return
        first = min(free)
        for reg in _pentominoes(first, free):
            nxt = dict(owner)
            for c in reg:
                nxt[c] = nreg
            rec(free - reg, nxt, nreg + 1)

    rec(frozenset(cells), {}, 0)
    return out


def classify(inst):
    h, w, p = inst["height"], inst["width"], inst["problem"]
    ncell = sum(1 for row in p for v in row if v >= -1)
    shape = "1xN" if h == 1 else "Nx1" if w == 1 else "square" if h == w else "h>w" if h > w else "w>h"
    if ncell != h * w:
        shape += " with holes"
    if ncell % 5 != 0:
        shape += " cells not multiple of 5"
    if any(v == 0 for row in p for v in row):
        shape += " with 0 clue"
    return shape


def _clues_of(h, w, p, sol):
    """side counts of every board cell in the division `sol` (dict over _edges keys)"""
    res = {}
    for y in range(h):
        for x in range(w):
            if p[y][x] < -1:
                continue
            n = 0
            for key in (("d", y, x), ("d", y - 1, x), ("r", y, x), ("r", y, x - 1)):
                if sol.get(key, True):
                    n += 1
            res[(y, x)] = n
    return res


def instances(tier, rnd):
    quick = tier == "quick"
    boards = []     # (h, w, holes)

    def add(h, w, nholes, reps):
        all_cells = [(y, x) for y in range(h) for x in range(w)]
        for rep in range(reps):
            holes = rnd.sample(all_cells, nholes)
            if nholes and rep % 4 != 3:
                # prefer hole patterns that leave a board which can be divided at all
                for _ in range(30):
                    trial = dict(height=h, width=w,
                                 problem=[[-2 if (y, x) in holes else -1 for x in range(w)] for y in range(h)])
                    if solutions(trial, limit=1):
                        break
                    holes = rnd.sample(all_cells, nholes)
            boards.append((h, w, holes))

    r = 1 if quick else 8
    add(1, 5, 0, 1), add(5, 1, 0, 1), add(1, 10, 0, 1), add(10, 1, 0, 1), add(2, 5, 0, 2), add(5, 2, 0, 2)
    add(3, 5, 0, 2), add(5, 3, 0, 2)
    add(1, 6, 1, r), add(6, 1, 1, r), add(2, 3, 1, r), add(3, 2, 1, r), add(3, 3, 4, 2 * r), add(3, 4, 2, 2 * r)
    add(4, 3, 2, 2 * r), add(4, 4, 1, 2 * r), add(4, 4, 6, 2 * r), add(2, 6, 2, r), add(6, 2, 2, r)
    add(1, 1, 0, 1), add(1, 4, 0, 1), add(2, 2, 0, 1), add(2, 3, 0, 1), add(3, 2, 0, 1), add(3, 3, 0, 1)   # not 5k cells
    if not quick:
        add(4, 5, 0, 3), add(5, 4, 0, 3), add(3, 7, 1, 6), add(7, 3, 1, 6), add(5, 5, 5, 6)
    per = 4 if quick else 14
    for (h, w, holes) in boards:
        base = [[-2 if (y, x) in holes else -1 for x in range(w)] for y in range(h)]
        inst0 = dict(height=h, width=w, problem=base)
        yield inst0
        sols = solutions(inst0, limit=3000)
        cells = [(y, x) for y in range(h) for x in range(w) if base[y][x] >= -1]
        for i in range(per):
            p = [row[:] for row in base]
            mode = i % 4
            if sols and mode != 3:
                cl = _clues_of(h, w, base, rnd.choice(sols))
                for c in rnd.sample(cells, rnd.randint(1, max(1, min(len(cells), 6)))):
                    p[c[0]][c[1]] = cl[c]
                if mode == 2:      # perturb one clue
                    c = rnd.choice(cells)
                    p[c[0]][c[1]] = rnd.randint(0, 4)
            else:
                for c in rnd.sample(cells, rnd.randint(1, min(len(cells), 3))):
                    p[c[0]][c[1]] = rnd.randint(0, 4)
            yield dict(height=h, width=w, problem=p)


# /repo/cspuz/puzzle/fivecells.py _main(): http://pzv.jp/p.html?fivecells/5/5/a23i21b3g3
# Solution (checked by hand: five connected regions of five cells, all six numbers right):
_EX_PROBLEM = [
    [-1, 2, 3, -1, -1],
    [-1, -1, -1, -1, -1],
    [-1, -1, 2, 1, -1],
    [-1, 3, -1, -1, -1],
    [-1, -1, -1, -1, 3],
]
_EX_REGIONS = [
    "ABBCC",
    "ABDDC",
    "ABDDC",
    "ABEDC",
    "AEEEE",
]


def _borders_of(regions):
    h, w = len(regions), len(regions[0])
    sol = {}
    for y in range(h):
        for x in range(w):
            if y < h - 1:
                sol[("d", y, x)] = regions[y][x] != regions[y + 1][x]
            if x < w - 1:
                sol[("r", y, x)] = regions[y][x] != regions[y][x + 1]
    return sol


EXAMPLES = [
    (dict(height=5, width=5, problem=_EX_PROBLEM), _borders_of(_EX_REGIONS)),
]
