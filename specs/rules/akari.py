"""Akari (Light Up) oracle, written from the published rules (Nikoli / puzz.link):

  1. Lights are placed on white cells only (never on a black cell, numbered or not).
  2. A light illuminates its own cell and, in the four orthogonal directions, every white cell up to the next
     black cell or the border.
  3. Every white cell is illuminated.
  4. No light illuminates another light.
  5. A black cell with a number has exactly that many lights in its (up to four) orthogonally adjacent cells.

Problem format of the real solver: solve_akari(height, width, problem) with problem[y][x] = -2 white cell,
-1 black cell without number, 0..4 black cell with number.  Answer: has_light[y, x] for every cell of the board
(black cells are reported as False).
"""
import itertools

MODULE = "cspuz.puzzle.akari"


def run_real(mod, inst):
    h, w = inst["height"], inst["width"]
    is_sat, has_light = mod.solve_akari(h, w, inst["problem"])
    if not is_sat:
        return False, {}
    return True, {(y, x): has_light[y, x].sol for y in range(h) for x in range(w)}


def _sight(h, w, problem, y, x):
    """white cells seen from the white cell (y, x), itself excluded"""
    out = []
    for dy, dx in ((-1, 0), (1, 0), (0, -1), (0, 1)):
        ny, nx = y + dy, x + dx
        while 0 <= ny < h and 0 <= nx < w and problem[ny][nx] == -2:
            out.append((ny, nx))
            ny, nx = ny + dy, nx + dx
    return out


def check(h, w, problem, lights):
    """lights: set of (y, x)"""
    for (y, x) in lights:
        if problem[y][x] != -2:
            return False
    lit = set()
    for (y, x) in lights:
        lit.add((y, x))
        for c in _sight(h, w, problem, y, x):
            if c in lights:
                return False
            lit.add(c)
    for y in range(h):
        for x in range(w):
            if problem[y][x] == -2:
                if (y, x) not in lit:
                    return False
            elif problem[y][x] >= 0:
                n = sum(1 for c in ((y - 1, x), (y + 1, x), (y, x - 1), (y, x + 1)) if c in lights)
                if n != problem[y][x]:
                    return False
    return True


def _answer(h, w, lights):
    return {(y, x): (y, x) in lights for y in range(h) for x in range(w)}


def _solutions_naive(h, w, problem, whites):
    out = []
    for mask in itertools.product((False, True), repeat=len(whites)):
        lights = {c for c, m in zip(whites, mask) if m}
        if check(h, w, problem, lights):
            out.append(_answer(h, w, lights))
    return out


def _solutions_search(h, w, problem, whites, limit):
    """for boards too large for 2^cells: repeatedly take an unlit cell and branch over the cell that lights it.
    Every leaf is re-verified with check()."""
    sight = {c: _sight(h, w, problem, c[0], c[1]) for c in whites}
    walls = [(y, x, problem[y][x]) for y in range(h) for x in range(w) if problem[y][x] >= 0]
    lights, lit, banned = set(), {}, set()
    out = []

    def walls_ok():
        for (y, x, n) in walls:
            have = can = 0
            for c in ((y - 1, x), (y + 1, x), (y, x - 1), (y, x + 1)):
                if c in lights:
                    have += 1
                elif c in sight and c not in lit and c not in banned:
                    can += 1
            if have > n or have + can < n:
                return False
        return True

    def rec():
        if len(out) >= limit or not walls_ok():
            return
        best = None
        for c in whites:
            if c in lit:
                continue
            cand = [p for p in [c] + sight[c] if p not in lit and p not in banned]
            if best is None or len(cand) < len(best):
                best = cand
                if not cand:
                    return
        if best is None:
            if check(h, w, problem, lights):
                out.append(_answer(h, w, lights))
            return
        added = []
        for p in best:
            lights.add(p)
            for q in [p] + sight[p]:
                lit[q] = lit.get(q, 0) + 1
            rec()
            for q in [p] + sight[p]:
                lit[q] -= 1
                if lit[q] == 0:
                    del lit[q]
            lights.discard(p)
            banned.add(p)
            added.append(p)
        for p in added:
            banned.discard(p)

    rec()
    return out


def solutions(inst, limit=100000, force=None):
    h, w = inst["height"], inst["width"]
    problem = inst["problem"]
    whites = [(y, x) for y in range(h) for x in range(w) if problem[y][x] == -2]
    if force == "naive" or (force is None and len(whites) <= 13):
        return _solutions_naive(h, w, problem, whites)
    return _solutions_search(h, w, problem, whites, limit)


def classify(inst):
    h, w = inst["height"], inst["width"]
    problem = inst["problem"]
    shape = "1xN board" if h == 1 or w == 1 else ("square" if h == w else ("h>w" if h > w else "h<w"))
    tags = [shape]
    flat = [v for row in problem for v in row]
    if all(v != -2 for v in flat):
        tags.append("no white cell")
    if 0 in flat:
        tags.append("zero clue")
    for y in range(h):
        for x in range(w):
            if problem[y][x] >= 0:
                nb = [(y - 1, x), (y + 1, x), (y, x - 1), (y, x + 1)]
                if not any(0 <= a < h and 0 <= b < w and problem[a][b] == -2 for a, b in nb):
                    if "numbered wall without white neighbour" not in tags:
                        tags.append("numbered wall without white neighbour")
    return ", ".join(tags)


_SHAPES_QUICK = [(1, 1), (1, 2), (1, 3), (1, 6), (4, 1), (2, 2), (2, 3), (3, 2), (3, 3), (2, 5), (4, 2), (3, 4), (4, 3)]
_SHAPES_MORE = [(1, 4), (1, 9), (7, 1), (2, 4), (5, 2), (2, 6), (4, 4), (3, 5), (5, 3)]


def _layout(h, w, rnd):
    p = rnd.choice([0.1, 0.25, 0.4, 0.6])
    return [[-1 if rnd.random() < p else -2 for _ in range(w)] for _ in range(h)]


def _numbered(h, w, layout, rnd, mode):
    problem = [row[:] for row in layout]
    walls = [(y, x) for y in range(h) for x in range(w) if layout[y][x] != -2]
    sols = solutions(dict(height=h, width=w, problem=layout), limit=300)
    if mode == "random" or not sols:
        for (y, x) in walls:
            problem[y][x] = rnd.choice([-1, -1, 0, 1, 1, 2, 3, 4])
        return problem
    sol = rnd.choice(sols)
    for (y, x) in walls:
        n = sum(1 for c in ((y - 1, x), (y + 1, x), (y, x - 1), (y, x + 1)) if sol.get(c))
        if mode == "all" or rnd.random() < 0.5:
            problem[y][x] = n
    if mode == "perturb" and walls:
        y, x = rnd.choice(walls)
        problem[y][x] = max(0, min(4, (problem[y][x] if problem[y][x] >= 0 else 0) + rnd.choice([-1, 1, 1, 2])))
    return problem


def instances(tier, rnd):
    quick = tier == "quick"
    fixed = [
        [[-2]], [[-1]], [[0]], [[1]], [[4]],
        [[-2, -2]], [[-2, 0]], [[-2, 1]], [[0, 0]], [[1, 1]], [[-1, 0]],
        [[-2, 1, -2]], [[-2, 2, -2]], [[-2, 0, -2]], [[-2, -1, -2]], [[-2], [2], [-2]],
        [[0, -2], [-2, -2]], [[-2, -2], [-2, -2]], [[-2, -2], [-2, 2]], [[-2, -2], [-2, 3]],
        [[-2, -2, -2], [-2, 4, -2], [-2, -2, -2]], [[-2, -2, -2], [-2, 0, -2], [-2, -2, -2]],
        [[-2, -2, -2], [-2, -2, -2], [-2, -2, -2]],
        [[-1, -1], [-1, -1]], [[0, -1], [-1, 0]], [[1, -1], [-1, -2]],
    ]
    for p in fixed:
        yield dict(height=len(p), width=len(p[0]), problem=[row[:] for row in p])
    shapes = _SHAPES_QUICK if quick else _SHAPES_QUICK + _SHAPES_MORE
    per_shape = 7 if quick else 80
    modes = ["all", "some", "perturb", "random", "none", "perturb", "some"]
    for (h, w) in shapes:
        for i in range(per_shape):
            layout = _layout(h, w, rnd)
            mode = modes[i % len(modes)]
            problem = layout if mode == "none" else _numbered(h, w, layout, rnd, mode)
            yield dict(height=h, width=w, problem=problem)


# A) 1x3  . 2 .   : the 2 needs a light on both neighbours, which also lights both white cells.
# B) 2x2  0 .     : the 0 forbids lights at (0,1) and (1,0); these cells can then only be lit from (1,1).
#         . .
# C) the module's own example (_main(), https://twitter.com/semiexp/status/1225770511080144896).  The repository
#    records no answer; the answer below was computed with this oracle (search + full re-check, exactly one legal
#    placement) and is cross-checked against the real solver by validate().
_EX_C = [
    [-2, -2, 2, -2, -2, -2, -2, -2, -2, -2],
    [-2, -2, -2, -2, -2, -2, -2, -2, 2, -2],
    [-2, -2, -2, -2, -2, -2, -2, -1, -2, -2],
    [-1, -2, -2, -2, 3, -2, -2, -2, -2, -2],
    [-2, -2, -2, -2, -2, -1, -2, -2, -2, -1],
    [2, -2, -2, -2, 2, -2, -2, -2, -2, -2],
    [-2, -2, -2, -2, -2, 3, -2, -2, -2, -1],
    [-2, -2, -1, -2, -2, -2, -2, -2, -2, -2],
    [-2, 2, -2, -2, -2, -2, -2, -2, -2, -2],
    [-2, -2, -2, -2, -2, -2, -2, -1, -2, -2],
]
_EX_C_ANSWER = [
    "O..O......",
    "..O......O",
    "....O...O.",
    ".....O....",
    "....O..O..",
    ".O...O....",
    "O.....O...",
    ".....O....",
    "..O.......",
    ".O.......O",
]


def _example(problem, answer_rows):
    h, w = len(problem), len(problem[0])
    return (dict(height=h, width=w, problem=[list(r) for r in problem]),
            {(y, x): answer_rows[y][x] == "O" for y in range(h) for x in range(w)})


EXAMPLES = [
    _example([[-2, 2, -2]], ["O.O"]),
    _example([[0, -2], [-2, -2]], ["..", ".O"]),
    _example(_EX_C, _EX_C_ANSWER),
]
