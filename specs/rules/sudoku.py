"""Sudoku oracle: rows, columns and n x n boxes hold 1..n*n exactly once; clues >= 1 are fixed."""
import itertools

MODULE = "cspuz.puzzle.sudoku"


def run_real(mod, inst):
    n = inst["n"]
    is_sat, ans = mod.solve_sudoku(inst["problem"], n=n)
    size = n * n
    return is_sat, {(y, x): ans[y, x].sol for y in range(size) for x in range(size)}


def solutions(inst, limit=5000):
    n = inst["n"]
    size = n * n
    p = inst["problem"]
    grid = [[0] * size for _ in range(size)]
    out = []

    def ok(y, x, v):
        for i in range(size):
            if grid[y][i] == v or grid[i][x] == v:
                return False
        by, bx = y // n * n, x // n * n
        for yy in range(by, by + n):
            for xx in range(bx, bx + n):
                if grid[yy][xx] == v:
                    return False
        return True

    def rec(k):
        if len(out) >= limit:
            return
        if k == size * size:
            out.append({(y, x): grid[y][x] for y in range(size) for x in range(size)})
            return
        y, x = divmod(k, size)
        cands = [p[y][x]] if p[y][x] >= 1 else range(1, size + 1)
        for v in cands:
            if 1 <= v <= size and ok(y, x, v):
                grid[y][x] = v
                rec(k + 1)
                grid[y][x] = 0

    rec(0)
    return out


def classify(inst):
    return "n=%d" % inst["n"]


def instances(tier, rnd):
    # n = 2 (4x4): all problems with <= 2 clues would be 288 solutions each; sample clue sets
    count = 60 if tier == "quick" else 600
    yield dict(n=1, problem=[[0]])
    yield dict(n=1, problem=[[1]])
    base = solutions(dict(n=2, problem=[[0] * 4 for _ in range(4)]))
    for i in range(count):
        sol = rnd.choice(base)
        k = rnd.randint(0, 9)
        cells = rnd.sample([(y, x) for y in range(4) for x in range(4)], k)
        prob = [[0] * 4 for _ in range(4)]
        for (y, x) in cells:
            prob[y][x] = sol[(y, x)]
        if i % 5 == 0 and cells:
            y, x = cells[0]
            prob[y][x] = rnd.randint(1, 4)   # possibly contradictory clue
        yield dict(n=2, problem=prob)


    # n = 3, 4 (and 5 in the thorough tier): a valid full grid (row r = base pattern, digits/bands permuted)
    # with a few cells erased, so the oracle's backtracking stays tiny while clue values above 9 and the
    # box geometry for larger n are exercised; every third one gets a clue changed (usually contradictory)
    for n in ([3, 4] if tier == "quick" else [3, 4, 5]):
        size = n * n
        for i in range(3 if tier == "quick" else 12):
            digits = list(range(1, size + 1))
            rnd.shuffle(digits)
            full = [[digits[(n * (r % n) + r // n + c) % size] for c in range(size)] for r in range(size)]
            k = rnd.randint(1, 2 * size)
            cells = rnd.sample([(y, x) for y in range(size) for x in range(size)], k)
            prob = [row[:] for row in full]
            for (y, x) in cells:
                prob[y][x] = 0 if rnd.random() < 0.7 else -1
            if i % 3 == 2:
                y, x = cells[0]
                prob[y][x] = full[y][(x + 1) % size]      # the neighbour's digit, given twice in the row
            if i % 3 == 1:
                # erase one whole digit: the largest one (> 9 for n >= 4) is forced everywhere
                for y in range(size):
                    for x in range(size):
                        if full[y][x] == size and rnd.random() < 0.8:
                            prob[y][x] = 0
            yield dict(n=n, problem=prob)
        # sparse contradictory boards: only row 0 is given, with one digit (the largest / the smallest) twice
        for dup in (size, 1):
            row = list(range(1, size + 1))
            rnd.shuffle(row)
            j = row.index(dup)
            row[(j + 1 + rnd.randrange(size - 1)) % size] = dup
            yield dict(n=n, problem=[row] + [[0] * size for _ in range(size - 1)])


def obeys(inst, grid):
    """independent checker: grid {(y, x): value} obeys the rules and keeps the givens"""
    n = inst["n"]
    size = n * n
    want = set(range(1, size + 1))
    g = [[grid[(y, x)] for x in range(size)] for y in range(size)]
    for i in range(size):
        if set(g[i]) != want or set(g[y][i] for y in range(size)) != want:
            return False
    for by in range(0, size, n):
        for bx in range(0, size, n):
            if set(g[y][x] for y in range(by, by + n) for x in range(bx, bx + n)) != want:
                return False
    p = inst["problem"]
    return all(p[y][x] < 1 or p[y][x] == g[y][x] for y in range(size) for x in range(size))


def large_instances(tier, rnd):
    """boards too large for solving with the z3 back end in the check's budget (16x16, 25x25, ...): only the
    posted constraint program is examined.  Every instance has at most one rule-obeying grid BY CONSTRUCTION
    (A: a valid grid with at most one cell erased per row -- each is the only digit its row lacks; B: the
    same with one given repeated in its row -- no grid), and comes with candidate grids judged by obeys()."""
    def as_grid(rows):
        return {(y, x): rows[y][x] for y in range(len(rows)) for x in range(len(rows))}

    for n in ([3, 4, 5] if tier == "quick" else [2, 3, 4, 5, 6]):
        size = n * n
        for rep in range(2 if tier == "quick" else 6):
            digits = list(range(1, size + 1))
            rnd.shuffle(digits)
            full = [[digits[(n * (r % n) + r // n + c) % size] for c in range(size)] for r in range(size)]
            prob = [row[:] for row in full]
            erased = []
            for y in range(size):
                if rnd.random() < 0.8:
                    x = rnd.randrange(size)
                    prob[y][x] = rnd.choice([0, 0, -1])
                    erased.append((y, x))
            variants = [("forced", prob)]
            if erased:
                y, x = erased[0]
                dup = [row[:] for row in prob]
                dup[y][x] = full[y][(x + 1) % size]
                variants.append(("given-twice-in-row", dup))
            # candidate grids
            grids = [("the grid", full)]
            for a, b in [(size, size - 1), (1, 2), tuple(rnd.sample(range(1, size + 1), 2)), (size, 1)]:
                grids.append(("digits %d and %d exchanged" % (a, b), [[b if v == a else a if v == b else v for v in row] for row in full]))
            r1 = rnd.randrange(size)
            r2 = r1 - r1 % n + (r1 % n + 1) % n
            sw = [row[:] for row in full]
            sw[r1], sw[r2] = sw[r2], sw[r1]
            grids.append(("two rows of a band exchanged", sw))
            for k in range(3):
                y, x = rnd.randrange(size), rnd.randrange(size)
                one = [row[:] for row in full]
                one[y][x] = one[y][x] % size + 1
                grids.append(("one cell changed", one))
            if erased:
                y, x = erased[-1]
                for v in (size, 1, 10 if size >= 10 else size):
                    one = [row[:] for row in full]
                    one[y][x] = v
                    grids.append(("erased cell filled with %d" % v, one))
            for vname, pr in variants:
                inst = dict(n=n, problem=pr)
                yield inst, [(as_grid(g), obeys(inst, as_grid(g)), "%s#%s" % (vname, gname)) for gname, g in grids]


_EX = [
    [0, 0, 0, 0, 0, 0, 0, 0, 0],
]
EXAMPLES = [
    (dict(n=2, problem=[[1, 0, 0, 0], [0, 0, 3, 0], [0, 4, 0, 0], [0, 0, 0, 2]]),
     None),
]


def _fill_examples():
    inst = EXAMPLES[0][0]
    sols = solutions(inst)
    EXAMPLES[0] = (inst, sols[0])


_fill_examples()
EXAMPLES_NOT_UNIQUE = True
