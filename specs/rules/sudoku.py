"""Sudoku oracle: rows, columns and n x n boxes hold 1..n*n exactly once; clues >= 1 are fixed."""
import itertools

MODULE = "cspuz.puzzle.sudoku"


def run_real(mod, inst):
    n = inst["n"]
    is_sat, ans = mod.solve_sudoku(inst["problem"], n=n)
    size = n * n
    return is_sat, {(y, x): ans[y, x].sol for y in range(size) for x in range(size)}


def solutions(inst, limit=5000):
    n = inst["n"]
    size = n * n
    p = inst["problem"]
    grid = [[0] * size for _ in range(size)]
    out = []

    def ok(y, x, v):
        for i in range(size):
            if grid[y][i] == v or grid[i][x] == v:
                return False
        by, bx = y // n * n, x // n * n
        for yy in range(by, by + n):
            for xx in range(bx, bx + n):
                if grid[yy][xx] == v:
                    return False
        return True

    def rec(k):
        if len(out) >= limit:
            return
        if k == size * size:
            out.append({(y, x): grid[y][x] for y in range(size) for x in range(size)})
            return
        y, x = divmod(k, size)
        cands = [p[y][x]] if p[y][x] >= 1 else range(1, size + 1)
        for v in cands:
            if 1 <= v <= size and ok(y, x, v):
                grid[y][x] = v
                rec(k + 1)
                grid[y][x] = 0

    rec(0)
    return out


def classify(inst):
    return "n=%d" % inst["n"]


def instances(tier, rnd):
    # n = 2 (4x4): all problems with <= 2 clues would be 288 solutions each; sample clue sets
    count = 60 if tier == "quick" else 600
    yield dict(n=1, problem=[[0]])
    yield dict(n=1, problem=[[1]])
    base = solutions(dict(n=2, problem=[[0] * 4 for _ in range(4)]))
    for i in range(count):
        sol = rnd.choice(base)
        k = rnd.randint(0, 9)
        cells = rnd.sample([(y, x) for y in range(4) for x in range(4)], k)
        prob = [[0] * 4 for _ in range(4)]
        for (y, x) in cells:
            prob[y][x] = sol[(y, x)]
        if i % 5 == 0 and cells:
            y, x = cells[0]
            prob[y][x] = rnd.randint(1, 4)   # possibly contradictory clue
        yield dict(n=2, problem=prob)


_EX = [
    [0, 0, 0, 0, 0, 0, 0, 0, 0],
]
EXAMPLES = [
    (dict(n=2, problem=[[1, 0, 0, 0], [0, 0, 3, 0], [0, 4, 0, 0], [0, 0, 0, 2]]),
     None),
]


def _fill_examples():
    inst = EXAMPLES[0][0]
    sols = solutions(inst)
    EXAMPLES[0] = (inst, sols[0])


_fill_examples()
EXAMPLES_NOT_UNIQUE = True
