"""Shakashaka oracle (Nikoli rules).

1. Put a black right-angled isosceles triangle (half of the cell, four orientations) into some of the
   white cells; black cells stay as they are.
2. A number in a black cell is the number of orthogonally adjacent cells that hold a triangle.
3. Every white area left over (maximal connected white part of the board) is a rectangle -- upright or
   tilted by 45 degrees (squares included).

Problem format (solve_shakashaka(height, width, problem)): problem[y][x] is None (white cell), -1 (black
cell without number) or 0..4 (black cell with number).  Answer: 0 = no triangle, 1..4 = triangle whose
right angle (the black corner) is top-left / bottom-left / bottom-right / top-right (picture in
solve_shakashaka); black cells are reported as 0.

Rule 3 is checked geometrically, independently of any corner/vertex reasoning: every cell is cut by its two
diagonals into four quarter triangles (N, E, S, W), a triangle of rule 1 blackens two neighbouring
quarters.  White quarters sharing a side are joined; a connected white area is a rectangle iff its area
equals the area of its bounding box in (x, y) coordinates (upright) or in (x+y, x-y) coordinates (tilted).
"""

MODULE = "cspuz.puzzle.shakashaka"

N_, E_, S_, W_ = 0, 1, 2, 3
# white quarters left by each answer value
_WHITE = {0: (N_, E_, S_, W_), 1: (E_, S_), 2: (N_, E_), 3: (N_, W_), 4: (S_, W_)}


def run_real(mod, inst):
    h, w = inst["height"], inst["width"]
    is_sat, ans = mod.solve_shakashaka(h, w, inst["problem"])
    if not is_sat:
        return is_sat, {}
    return is_sat, {(y, x): ans[y, x].sol for y in range(h) for x in range(w)}


def _quarter_points(y, x, d):
    """corner points of quarter d of cell (y, x) in doubled coordinates (X, Y)"""
    tl, tr, bl, br, c = (2 * x, 2 * y), (2 * x + 2, 2 * y), (2 * x, 2 * y + 2), (2 * x + 2, 2 * y + 2), (2 * x + 1, 2 * y + 1)
    return {N_: (tl, tr, c), E_: (tr, br, c), S_: (bl, br, c), W_: (tl, bl, c)}[d]


def _is_rectangle(quarters):
    """quarters: list of (y, x, d) forming one connected area.  Each quarter has area 1 (doubled units)."""
    pts = [pt for (y, x, d) in quarters for pt in _quarter_points(y, x, d)]
    xs = [p[0] for p in pts]
    ys = [p[1] for p in pts]
    if (max(xs) - min(xs)) * (max(ys) - min(ys)) == len(quarters):
        return True
    us = [p[0] + p[1] for p in pts]
    vs = [p[0] - p[1] for p in pts]
    # (u, v) = (x + y, x - y) doubles areas
    return (max(us) - min(us)) * (max(vs) - min(vs)) == 2 * len(quarters)


def solutions(inst, limit=100000, prune=True):
    """all rule-obeying answers.  Acceptance is decided by the geometric area test alone (areas_ok on the
    complete grid); `prune` only enables an early, sound rejection of partial grids (corner_ok), which
    tests/cross-checks may switch off."""
    h, w = inst["height"], inst["width"]
    p = inst["problem"]
    N = h * w
    ans = [None] * N
    is_black = [p[y][x] is not None for y in range(h) for x in range(w)]
    number = [p[y][x] if (p[y][x] is not None and p[y][x] >= 0) else None for y in range(h) for x in range(w)]
    nb = []
    for y in range(h):
        for x in range(w):
            l = []
            if y > 0:
                l.append((y - 1) * w + x)
            if y < h - 1:
                l.append((y + 1) * w + x)
            if x > 0:
                l.append(y * w + x - 1)
            if x < w - 1:
                l.append(y * w + x + 1)
            nb.append(l)
    out = []

    def white_quarters(k):
        return () if is_black[k] else _WHITE[ans[k]]

    def areas_ok(upto):
        """rule 3 for every white area that can no longer grow (cells < upto are assigned);
        with upto == N this is the complete check"""
        wq = {}
        for k in range(upto):
            for d in white_quarters(k):
                wq[(k, d)] = False
        for start in list(wq):
            if wq[start]:
                continue
            wq[start] = True
            comp = [start]
            st = [start]
            open_ = False
            while st:
                k, d = st.pop()
                y, x = divmod(k, w)
                cand = [(k, (d + 1) % 4), (k, (d + 3) % 4)]
                if d == N_ and y > 0:
                    cand.append((k - w, S_))
                elif d == S_ and y < h - 1:
                    if k + w >= upto:
                        open_ = open_ or not is_black[k + w]
                    else:
                        cand.append((k + w, N_))
                elif d == W_ and x > 0:
                    cand.append((k - 1, E_))
                elif d == E_ and x < w - 1:
                    if k + 1 >= upto:
                        open_ = open_ or not is_black[k + 1]
                    else:
                        cand.append((k + 1, W_))
                for q in cand:
                    if q in wq and not wq[q]:
                        wq[q] = True
                        comp.append(q)
                        st.append(q)
            if not open_:
                if not _is_rectangle([(k // w, k % w, d) for (k, d) in comp]):
                    return False
        return True

    def corner_ok(py, px, upto):
        """necessary condition at grid point (py, px) once all cells around it are known: the eight 45-degree
        sectors around the point (two per cell) are joined cyclically, and a rectangle can only occupy a wedge
        of 90, 180 or 360 degrees at any point of the plane, so every maximal cyclic run of white sectors
        consists of 2, 4 or 8 sectors."""
        sect = []
        for (cy, cx, d1, d2) in ((py - 1, px, W_, S_), (py, px, N_, W_), (py, px - 1, E_, N_), (py - 1, px - 1, S_, E_)):
            if 0 <= cy < h and 0 <= cx < w:
                k = cy * w + cx
                if is_black[k]:
                    sect += [False, False]
                elif k >= upto:
                    return True          # not decidable yet
                else:
                    wq = _WHITE[ans[k]]
                    sect += [d1 in wq, d2 in wq]
            else:
                sect += [False, False]
        if all(sect):
            return True
        i0 = sect.index(False)
        run = 0
        for i in range(1, 9):
            if sect[(i0 + i) % 8]:
                run += 1
            else:
                if run not in (0, 2, 4):
                    return False
                run = 0
        return True

    def numbers_ok(k):
        """partial check of rule 2 around the cell k just assigned"""
        for j in nb[k] + [k]:
            if number[j] is None:
                continue
            have = sum(1 for q in nb[j] if q <= k and ans[q])
            free = sum(1 for q in nb[j] if q > k and not is_black[q])
            if have > number[j] or have + free < number[j]:
                return False
        return True

    def rec(k):
        if len(out) >= limit:
            return
        if k == N:
            out.append({divmod(i, w): ans[i] for i in range(N)})
            return
        for v in ((0,) if is_black[k] else (0, 1, 2, 3, 4)):
            ans[k] = v
            ok = numbers_ok(k)
            if ok and prune:
                y, x = divmod(k, w)
                ok = all(corner_ok(py, px, k + 1) for (py, px) in ((y, x), (y, x + 1), (y + 1, x), (y + 1, x + 1)))
            if ok and areas_ok(k + 1):
                rec(k + 1)
            ans[k] = None

    rec(0)
    return out


def classify(inst):
    h, w = inst["height"], inst["width"]
    k = "1x1" if h * w == 1 else "1xN" if h == 1 else "Nx1" if w == 1 else "square" if h == w else "h>w" if h > w else "w>h"
    if all(v is None for r in inst["problem"] for v in r):
        k += ",no-black-cell"
    return k


def instances(tier, rnd):
    quick = tier == "quick"
    shapes = [(1, 1), (1, 2), (2, 1), (1, 4), (4, 1), (2, 2), (2, 3), (3, 2), (3, 3), (2, 4), (4, 2), (3, 4), (4, 3)]
    if not quick:
        shapes += [(1, 3), (3, 1), (1, 6), (6, 1), (2, 5), (5, 2), (4, 4), (3, 5), (5, 3)]
    per = 10 if quick else 110
    for v in (-1, 0, 1):
        yield dict(height=1, width=1, problem=[[v]])         # a lone black cell
    for (h, w) in shapes:
        yield dict(height=h, width=w, problem=[[None] * w for _ in range(h)])
        cells = [(y, x) for y in range(h) for x in range(w)]
        n = min(per, 3 + h * w) if quick else min(per, 4 + 10 * h * w)
        for i in range(n):
            mode = i % 5
            for attempt in range(6):
                nblack = rnd.randint(0 if i % 4 == 0 else 1, max(1, h * w // 2))
                blacks = rnd.sample(cells, min(nblack, len(cells)))
                prob = [[None] * w for _ in range(h)]
                for (y, x) in blacks:
                    prob[y][x] = -1
                sols = solutions(dict(height=h, width=w, problem=prob), limit=3000)
                if sols or mode > 2:
                    break
            if mode <= 2:
                # numbers read off a random rule-obeying answer of the unnumbered board
                sol = rnd.choice(sols) if sols else {}     # no answer at all: numbers 0, instance unsatisfiable
                for (y, x) in blacks:
                    if rnd.random() < 0.7:
                        prob[y][x] = sum(1 for d in ((y - 1, x), (y + 1, x), (y, x - 1), (y, x + 1)) if sol.get(d))
                if mode == 2 and blacks:
                    y, x = rnd.choice(blacks)
                    prob[y][x] = rnd.randint(0, 4)
            else:
                for (y, x) in blacks:
                    prob[y][x] = rnd.choice([-1, 0, 1, 2, 3, 4])
            yield dict(height=h, width=w, problem=prob)


# --- recorded example: shakashaka._main() (https://twitter.com/semiexp/status/1223794016593956864) ---
def _example():
    height, width = 10, 10
    problem = [[None for _ in range(width)] for _ in range(height)]
    for (y, x, n) in ((1, 2, 3), (2, 7, 2), (2, 9, 0), (3, 0, 1), (3, 3, 3), (4, 6, 3), (5, 0, 2), (5, 3, 2),
                      (6, 8, 2), (9, 3, 2), (9, 7, 0)):
        problem[y][x] = n
    return dict(height=height, width=width, problem=problem)


# The repository records only the problem; this answer is what the oracle finds as the unique
# rule-obeying grid (validate() re-checks uniqueness and the agreement with the real solver).
_EX_ANSWER = [
    "1400014140",
    "2301423230",
    "0142040000",
    "0230230140",
    "0000140204",
    "0140204023",
    "1030023000",
    "2301414014",
    "0142323023",
    "0230000000",
]
EXAMPLES = [(_example(), {(y, x): int(_EX_ANSWER[y][x]) for y in range(10) for x in range(10)})]
