"""Nurimisaki oracle (Nikoli rules).

1. Shade some cells; a cell with a circle is never shaded.
2. All unshaded cells form one orthogonally connected area.
3. A circle is a "cape" (misaki): exactly one of its orthogonal neighbours is unshaded.  An unshaded
   cell WITHOUT a circle is never a cape (its number of unshaded neighbours is not 1).
4. A number in a circle is the number of unshaded cells in the straight line that starts in the cape
   and runs through its only unshaded neighbour up to the first shaded cell / the border, the cape's
   own cell included.
5. No 2x2 square is entirely shaded, none is entirely unshaded.

Problem format (solve_nurimisaki(height, width, problem)): problem[y][x] == -1 no circle, 0 circle
without number, n >= 1 circle with number n.  Answer: is_white[y, x] (True = unshaded).

Interpretation decisions: an answer without any unshaded cell satisfies rule 2 vacuously (only
possible on boards without circles and without 2x2 squares); a single unshaded cell without
unshaded neighbours is not a cape.  A circle with number 1 can never be satisfied (the line of a
cape contains the cape and its unshaded neighbour, i.e. at least 2 cells).
"""

MODULE = "cspuz.puzzle.nurimisaki"


def run_real(mod, inst):
    h, w = inst["height"], inst["width"]
    is_sat, ans = mod.solve_nurimisaki(h, w, inst["problem"])
    if not is_sat:
        return is_sat, {}
    return is_sat, {(y, x): ans[y, x].sol for y in range(h) for x in range(w)}


def solutions(inst, limit=100000):
    h, w = inst["height"], inst["width"]
    p = inst["problem"]
    N = h * w
    white = [None] * N    # True = unshaded
    out = []
    nb = []
    for y in range(h):
        for x in range(w):
            l = []
            if y > 0:
                l.append((y - 1) * w + x)
            if y < h - 1:
                l.append((y + 1) * w + x)
            if x > 0:
                l.append(y * w + x - 1)
            if x < w - 1:
                l.append(y * w + x + 1)
            nb.append(l)
    circ = [p[y][x] != -1 for y in range(h) for x in range(w)]
    num = [p[y][x] for y in range(h) for x in range(w)]
    last_circle = max([i for i in range(N) if circ[i]], default=-1)

    def cape_ok(i):
        """rule 3 for cell i (all neighbours assigned)"""
        if not white[i]:
            return True
        c = sum(1 for j in nb[i] if white[j])
        return c == 1 if circ[i] else c != 1

    def line_ok(i):
        """rule 4 for the numbered circle i on a complete grid (rule 3 already holds)"""
        y, x = divmod(i, w)
        for dy, dx in ((-1, 0), (1, 0), (0, -1), (0, 1)):
            yy, xx = y + dy, x + dx
            if 0 <= yy < h and 0 <= xx < w and white[yy * w + xx]:
                n = 1
                while 0 <= yy < h and 0 <= xx < w and white[yy * w + xx]:
                    n += 1
                    yy += dy
                    xx += dx
                return n == num[i]
        return False

    def comps(upto):
        """components of unshaded cells among cells 0..upto-1"""
        seen = set()
        res = []
        for s in range(upto):
            if white[s] and s not in seen:
                comp = {s}
                st = [s]
                while st:
                    u = st.pop()
                    for v in nb[u]:
                        if v < upto and white[v] and v not in comp:
                            comp.add(v)
                            st.append(v)
                seen |= comp
                res.append(comp)
        return res

    def rec(k):
        if len(out) >= limit:
            return
        if k == N:
            cs = comps(N)
            if len(cs) > 1:
                return
            for i in range(N):
                if circ[i] and num[i] >= 1 and not line_ok(i):
                    return
            out.append({divmod(i, w): white[i] for i in range(N)})
            return
        y, x = divmod(k, w)
        for v in ((True,) if circ[k] else (True, False)):
            white[k] = v
            ok = True
            if y > 0 and x > 0:
                a, b, c = white[k - w - 1], white[k - w], white[k - 1]
                if a == b == c == v:
                    ok = False
            if ok:
                # rule 3 for every cell whose neighbourhood just became complete
                for j in nb[k] + [k]:
                    if all(q <= k for q in nb[j]) and not cape_ok(j):
                        ok = False
                        break
            if ok and x == w - 1 and y < h - 1:
                # connectivity pruning at the end of a row: a component that cannot grow any more
                cs = comps(k + 1)
                if len(cs) > 1 or last_circle > k:
                    for comp in cs:
                        if not any(q >= k + 1 - w for q in comp):
                            ok = False
                            break
            if ok:
                rec(k + 1)
            white[k] = None

    rec(0)
    return out


def classify(inst):
    h, w = inst["height"], inst["width"]
    k = "1x1" if h * w == 1 else "1xN" if h == 1 else "Nx1" if w == 1 else "square" if h == w else "h>w" if h > w else "w>h"
    p = inst["problem"]
    one = noroom = False
    for y in range(h):
        for x in range(w):
            n = p[y][x]
            if n == 1:
                one = True
                if 0 < y < h - 1 and 0 < x < w - 1 and ",interior" not in k:
                    k += ",interior"
            elif n >= 2 and not (y + 1 >= n or h - y >= n or x + 1 >= n or w - x >= n):
                noroom = True
    if one:
        k += ",number1"
    if noroom:
        k += ",number-without-room"
    return k


def _derive(h, w, sol, rnd, p_circle_number):
    """clues implied by a grid obeying rules 2 and 5: circles exactly on its capes (rule 3 then holds),
    each circle carrying its true line length (with probability p_circle_number) or no number"""
    prob = [[-1] * w for _ in range(h)]
    for y in range(h):
        for x in range(w):
            if not sol[(y, x)]:
                continue
            ns = [(y + dy, x + dx) for dy, dx in ((-1, 0), (1, 0), (0, -1), (0, 1))
                  if 0 <= y + dy < h and 0 <= x + dx < w and sol[(y + dy, x + dx)]]
            if len(ns) == 1:
                dy, dx = ns[0][0] - y, ns[0][1] - x
                n = 1
                yy, xx = y + dy, x + dx
                while 0 <= yy < h and 0 <= xx < w and sol[(yy, xx)]:
                    n += 1
                    yy += dy
                    xx += dx
                prob[y][x] = n if rnd.random() < p_circle_number else 0
    return prob


_CACHE = {}


def _free(h, w):
    """all grids obeying rules 2 and 5 (no circle constraints): used to derive clue sets"""
    if (h, w) not in _CACHE:
        res = []
        cells = [(y, x) for y in range(h) for x in range(w)]
        for mask in range(1 << (h * w)):
            g = {c: bool(mask >> i & 1) for i, c in enumerate(cells)}
            ok = True
            for y in range(h - 1):
                for x in range(w - 1):
                    q = {g[(y, x)], g[(y + 1, x)], g[(y, x + 1)], g[(y + 1, x + 1)]}
                    if len(q) == 1:
                        ok = False
            if not ok:
                continue
            ws = [c for c in cells if g[c]]
            if ws:
                comp = {ws[0]}
                st = [ws[0]]
                while st:
                    y, x = st.pop()
                    for d in ((y - 1, x), (y + 1, x), (y, x - 1), (y, x + 1)):
                        if g.get(d) and d not in comp:
                            comp.add(d)
                            st.append(d)
                if len(comp) != len(ws):
                    continue
            res.append(g)
        _CACHE[(h, w)] = res
    return _CACHE[(h, w)]


def instances(tier, rnd):
    quick = tier == "quick"
    shapes = [(1, 1), (1, 2), (2, 1), (1, 3), (3, 1), (1, 5), (5, 1), (2, 2), (2, 3), (3, 2), (3, 3), (2, 4), (4, 2)]
    if not quick:
        shapes += [(1, 4), (4, 1), (1, 7), (7, 1), (2, 5), (5, 2), (3, 4), (4, 3)]
    per = 9 if quick else 110
    # a circle away from the border (a cape there needs a 4x5 board at least); number 1 is the degenerate
    # clue that can never be satisfied (see module docstring), 0 and 2 are the controls
    for (h, w, y, x) in ((4, 5, 1, 2), (5, 4, 2, 1)):
        for n in (1, 0, 2):
            prob = [[-1] * w for _ in range(h)]
            prob[y][x] = n
            yield dict(height=h, width=w, problem=prob)
    # degenerate numbers on the border: 1 (never satisfiable) and a number longer than any line of the board
    yield dict(height=1, width=2, problem=[[1, -1]])
    yield dict(height=2, width=2, problem=[[1, -1], [-1, -1]])
    yield dict(height=2, width=2, problem=[[3, -1], [-1, -1]])
    for (h, w) in shapes:
        yield dict(height=h, width=w, problem=[[-1] * w for _ in range(h)])
        free = _free(h, w)
        n = min(per, 2 + 3 * h * w) if quick else min(per, 2 + 12 * h * w)
        for i in range(n):
            mode = i % 6
            if mode <= 3 and free:
                sol = rnd.choice(free)
                prob = _derive(h, w, sol, rnd, (0.0, 0.5, 1.0, 0.5)[mode])
                if mode == 3:
                    # perturb: drop a circle, add a circle, or change a number (often unsatisfiable)
                    y, x = rnd.randrange(h), rnd.randrange(w)
                    prob[y][x] = rnd.choice([-1, -1, 0, 0, 1, 2, 2, 3, max(h, w), max(h, w) + 1])
            else:
                prob = [[rnd.choice([-1, -1, -1, -1, 0, rnd.randint(2, max(2, h, w))]) for _ in range(w)] for _ in range(h)]
            yield dict(height=h, width=w, problem=prob)


# --- recorded example ---------------------------------------------------------------------------
# nurimisaki._main() and the bench URLs are 10x10 boards: out of reach of this brute force (tried: no
# answer within 120 s).  Hand-made 3x3 puzzle with a hand-verified unique solution:
#     3 . .        . . .
#     . . .   ->   # # .      ('.' unshaded, '#' shaded)
#     3 . .        . . .
# Hand check: if the cape (0,0) continued downwards, column 0 would be the 3-line of both circles and
# (0,1), (2,1) shaded; (1,1) shaded then forces an all-shaded or a disconnected right part, (1,1)
# unshaded forces (1,2) unshaded (no cape without circle), which needs (0,2) or (2,2) unshaded, and
# that cell is a cape without circle.  Hence (1,0) is shaded and rows 0 and 2 are the two 3-lines.
# (0,2) and (2,2) must not be capes, so (1,2) is unshaded, and (1,1) is shaded (no unshaded 2x2).
_EX_PROBLEM = [[3, -1, -1], [-1, -1, -1], [3, -1, -1]]
_EX_ANSWER = ["...", "##.", "..."]
EXAMPLES = [
    (dict(height=3, width=3, problem=_EX_PROBLEM),
     {(y, x): _EX_ANSWER[y][x] == "." for y in range(3) for x in range(3)}),
]
