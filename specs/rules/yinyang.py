"""Yin-Yang oracle (puzz.link rules).

1. Put a white or a black circle into every empty cell (given circles stay).
2. All white circles form one orthogonally connected area, and so do all black circles.
3. No 2x2 square holds four circles of the same colour.

Problem format (solve_yinyang(height, width, problem)): 0 empty, 1 white circle, 2 black circle.
Answer: is_black[y, x].

Interpretation decision: a colour that does not occur at all is (vacuously) connected, e.g. the
all-white 1xN board obeys the rules.
"""

MODULE = "cspuz.puzzle.yinyang"


def run_real(mod, inst):
    h, w = inst["height"], inst["width"]
    is_sat, ans = mod.solve_yinyang(h, w, inst["problem"])
    if not is_sat:
        return is_sat, {}
    return is_sat, {(y, x): ans[y, x].sol for y in range(h) for x in range(w)}


def solutions(inst, limit=200000):
    h, w = inst["height"], inst["width"]
    p = inst["problem"]
    N = h * w
    black = [None] * N
    out = []
    nb = []
    for y in range(h):
        for x in range(w):
            l = []
            if y > 0:
                l.append((y - 1) * w + x)
            if y < h - 1:
                l.append((y + 1) * w + x)
            if x > 0:
                l.append(y * w + x - 1)
            if x < w - 1:
                l.append(y * w + x + 1)
            nb.append(l)
    given = [p[y][x] for y in range(h) for x in range(w)]
    last_given = {True: max([i for i in range(N) if given[i] == 2], default=-1),
                  False: max([i for i in range(N) if given[i] == 1], default=-1)}

    def comps(upto, colour):
        seen = set()
        res = []
        for s in range(upto):
            if black[s] == colour and s not in seen:
                comp = {s}
                st = [s]
                while st:
                    u = st.pop()
                    for v in nb[u]:
                        if v < upto and black[v] == colour and v not in comp:
                            comp.add(v)
                            st.append(v)
                seen |= comp
                res.append(comp)
        return res

    def rec(k):
        if len(out) >= limit:
            return
        if k == N:
            if len(comps(N, True)) > 1 or len(comps(N, False)) > 1:
                return
            out.append({divmod(i, w): black[i] for i in range(N)})
            return
        y, x = divmod(k, w)
        cands = (False,) if given[k] == 1 else (True,) if given[k] == 2 else (False, True)
        for v in cands:
            black[k] = v
            ok = True
            if y > 0 and x > 0 and black[k - w - 1] == black[k - w] == black[k - 1] == v:
                ok = False
            if ok and x == w - 1 and y < h - 1:
                # pruning: a component without a cell in the row just completed can never grow again
                for colour in (True, False):
                    cs = comps(k + 1, colour)
                    if len(cs) > 1 or last_given[colour] > k:
                        for comp in cs:
                            if not any(q >= k + 1 - w for q in comp):
                                ok = False
                                break
                    if not ok:
                        break
            if ok:
                rec(k + 1)
            black[k] = None

    rec(0)
    return out


def classify(inst):
    h, w = inst["height"], inst["width"]
    return "1x1" if h * w == 1 else "1xN" if h == 1 else "Nx1" if w == 1 else "square" if h == w else "h>w" if h > w else "w>h"


_CACHE = {}


def _all(h, w):
    if (h, w) not in _CACHE:
        _CACHE[(h, w)] = solutions(dict(height=h, width=w, problem=[[0] * w for _ in range(h)]))
    return _CACHE[(h, w)]


def instances(tier, rnd):
    quick = tier == "quick"
    shapes = [(1, 1), (1, 2), (2, 1), (1, 4), (4, 1), (2, 2), (2, 3), (3, 2), (3, 3), (2, 5), (5, 2), (3, 4), (4, 3)]
    if not quick:
        shapes += [(1, 3), (3, 1), (1, 7), (7, 1), (2, 4), (4, 2), (2, 6), (6, 2), (4, 4), (3, 5), (5, 3)]
    per = 8 if quick else 100
    for (h, w) in shapes:
        yield dict(height=h, width=w, problem=[[0] * w for _ in range(h)])
        base = _all(h, w)
        cells = [(y, x) for y in range(h) for x in range(w)]
        n = min(per, 2 + 2 * h * w) if quick else min(per, 2 + 10 * h * w)
        for i in range(n):
            mode = i % 5
            if mode <= 2 and base:
                sol = rnd.choice(base)
                k = rnd.randint(0, len(cells))
                prob = [[0] * w for _ in range(h)]
                for (y, x) in rnd.sample(cells, k):
                    prob[y][x] = 2 if sol[(y, x)] else 1
                if mode == 2:
                    y, x = rnd.choice(cells)      # flip / add one given: often unsatisfiable
                    prob[y][x] = rnd.choice([1, 2])
            else:
                dens = rnd.choice([0.2, 0.5, 0.9])
                prob = [[rnd.choice([1, 2]) if rnd.random() < dens else 0 for _ in range(w)] for _ in range(h)]
            yield dict(height=h, width=w, problem=prob)


# --- recorded example: yinyang._main() (http://pzv.jp/p.html?yinyang/6/6/0j40j0060220) ----------------
_EX_PROBLEM = [
    [0, 0, 0, 2, 0, 1],
    [0, 1, 1, 0, 0, 0],
    [2, 0, 1, 0, 0, 0],
    [0, 0, 0, 0, 2, 0],
    [0, 0, 0, 0, 0, 2],
    [0, 0, 2, 0, 0, 0],
]
# The repository records only the problem; this answer is what the oracle finds as the unique
# rule-obeying grid (validate() re-checks uniqueness and the agreement with the real solver).
_EX_ANSWER = [
    "#####o",
    "#ooooo",
    "##o##o",
    "#ooo##",
    "#o#oo#",
    "######",
]
EXAMPLES = [(dict(height=6, width=6, problem=_EX_PROBLEM),
             {(y, x): _EX_ANSWER[y][x] == "#" for y in range(6) for x in range(6)})]
