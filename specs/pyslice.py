"""Reference semantics of CPython list indexing with slices.

Transcribed from CPython's PySlice_Unpack + PySlice_AdjustIndices (Objects/sliceobject.c) and the
length formula of range objects; written with `ite` so that the same text evaluates on concrete ints
and on pyvc's symbolic ints.  `validate()` compares it with real Python lists.
"""

from pyvc.sym import ite, And, Or, Not


def _adjust(v, length, neg):
    # if v < 0: v += length; if v < 0: v = -1 if step < 0 else 0
    # elif v >= length: v = length - 1 if step < 0 else length
    low = ite(neg, -1, 0)
    high = ite(neg, length - 1, length)
    w = ite(v < 0, v + length, v)
    return ite(v < 0, ite(w < 0, low, w), ite(v >= length, high, v))


def indices(length, start, stop, step):
    """slice(start, stop, step).indices(length); step must not be 0 (None means 1)."""
    st = 1 if step is None else step
    neg = st < 0
    if start is None:
        s = ite(neg, length - 1, 0)
    else:
        s = _adjust(start, length, neg)
    if stop is None:
        e = ite(neg, -1, length)
    else:
        e = _adjust(stop, length, neg)
    return s, e, st


def range_len(s, e, st):
    """len(range(s, e, st)), st != 0"""
    pos = ite(s < e, (e - s - 1) // st + 1, 0)
    # for st < 0:  (s - e - 1) // (-st) + 1
    negl = ite(e < s, (s - e - 1) // (0 - st) + 1, 0)
    return ite(st > 0, pos, negl)


def norm_index(k, length):
    """list index normalisation; caller checks -length <= k < length"""
    return ite(k < 0, k + length, k)


def validate(max_len=6, lo=-9, hi=9):
    """exhaustive comparison with CPython lists; returns number of cases"""
    n = 0
    vals = [None] + list(range(lo, hi + 1))
    for length in range(max_len + 1):
        L = list(range(length))
        for a in vals:
            for b in vals:
                for c in vals:
                    if c == 0:
                        continue
                    s, e, st = indices(length, a, b, c)
                    exp = L[slice(a, b, c)]
                    assert (s, e, st) == slice(a, b, c).indices(length), (length, a, b, c, (s, e, st))
                    assert range_len(s, e, st) == len(exp), (length, a, b, c)
                    assert [L[s + i * st] for i in range(len(exp))] == exp
                    n += 1
    return n
