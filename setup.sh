#!/bin/sh
# Offline setup: everything the checks need is already in /venv (python 3.12, z3-solver 5.1) and
# /usr/bin/cvc5.  Nothing is downloaded.  Verifies the tool chain and compiles nothing.
set -e
cd "$(dirname "$0")"
/venv/bin/python - <<'PY'
import z3, sys
assert sys.version_info[:2] == (3, 12)
print("z3", z3.get_version_string())
PY
test -x /usr/bin/cvc5 && /usr/bin/cvc5 --version | head -1
mkdir -p evidence replays
echo setup ok
