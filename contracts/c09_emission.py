"""C09 — emission contract of active_edges_acyclic (cspuz/graph.py) and the lemma that carries it to the property.

Proved here by pyvc, for every graph (ghost view of the incidence lists: row i has entries (NB(i,k), IE(i,k))):
  * one array of n rank variables with domain [0, n-1] is created, nothing else;
  * for every vertex i and every entry (j, e) of its incident list exactly one summand `(rank[j] < rank[i]) & x_e` is
    collected, and the constraint `rank[i] != rank[j]` is posted exactly when i < j;
  * for every vertex i exactly one further constraint `count_true(<the summands of i>) <= 1` is posted.
By the representation invariant of Graph (C04/graph_add_edge: edge e = (u, v) contributes (v, e) to row u and (u, e)
to row v) this is, for a loop-free graph, the schema
      exists rank : V -> [0, n-1].  (forall e. rank(src e) != rank(dst e))  and
                                     (forall i. #{e active at i with rank(other end) < rank(i)} <= 1),
and lean/Encoders.lean (namespace C09) proves (Lean 4 + Mathlib, no sorry, axioms propext/Classical.choice/Quot.sound):
      that schema is satisfiable  <=>  every non-empty set of active edges has a vertex met by exactly one of them
(the leaf characterisation of forests; two active parallel edges violate it).  The step from the posted expression
objects to their meaning is the per-operator contract of C01/C12; the step from the incidence lists to src/dst is
the hand translation stated above (checked against the reference predicate on all small multigraphs by the bounded
tier, which also cross-checks the leaf characterisation against the union-find forest test).
"""
import z3 as _z3

from pyvc.api import *
from pyvc.values import VList, HostFn, GhostVal, AbstractSeq
from pyvc.sym import _zint
from contracts.c04_graph_plumbing import IncView, IncRowView, EdgeList

GR = "cspuz/graph.py"
SOLV = "cspuz/solver.py"
K = GR + "::active_edges_acyclic"
I = _z3.IntSort()


class T(GhostVal):
    """ghost record of a constructed expression"""

    def __init__(self, tag, *parts):
        self.tag, self.parts = tag, parts

    def pv_compare(self, opname, other, reflected):
        return T("cmp:" + opname, *((other, self) if reflected else (self, other)))

    def pv_binop(self, op, other, reflected):
        return T("bin:" + op, *((other, self) if reflected else (self, other)))

    def pv_unop(self, op):
        return T("un:" + op, self)

    def pv_getattr(self, name):
        # boolean expressions offer .cond(a, b) and .then(x)
        if name == "cond":
            return HostFn(lambda it, a, k: T("cond", self, *a), "cond", raw=True)
        if name == "then":
            return HostFn(lambda it, a, k: T("then", self, *a), "then", raw=True)
        raise OutOfSubset("expression .%s" % name)


class Ranks(GhostVal):
    def __init__(self, n):
        self.n = n

    def pv_len(self):
        return self.n

    def pv_getitem(self, j):
        if not bool((j >= 0) & (j < self.n)):
            check("rank-index-is-a-vertex", False)
            raise PathEnd("rank index")
        return T("rank", j)


def _is_rank(t, j):
    return isinstance(t, T) and t.tag == "rank" and t.parts[0] == j


@harness("C09", structural=True)
def acyclic_emission(case):
    if CTX.mode != "sym":
        return
    n, m = sint("n"), sint("m")
    requires(And(n >= 0, m >= 0))
    LEN, NB, IE = _z3.Function("LEN", I, I), _z3.Function("NB", I, I, I), _z3.Function("IE", I, I, I)
    cur = {}

    class Row(IncRowView):
        """rows are traversed by position: entry k is (NB(i,k), IE(i,k)); neighbours are vertices and edge ids are edges
        (representation invariant of Graph)"""
        pv_indexed = True

        def pv_getitem(self, k):
            j, e = IncRowView.pv_getitem(self, k)
            assume_fact(mk_bool(_z3.And(j.t >= 0, j.t < n.t, e.t >= 0, e.t < m.t)))
            return (j, e)

    class Inc(IncView):
        def pv_getitem(self, v):
            r = IncView.pv_getitem(self, v)
            return Row(self, v)

    inc = Inc(n, m, LEN, NB, IE)
    g = OBJ(GR, "Graph", num_vertices=n, edges=EdgeList(m, _z3.Function("U", I, I), _z3.Function("V", I, I)), incident_edges=inc)
    k_ = _z3.Int("k!x")
    xs = VList(None, m.t, _z3.Lambda([k_], 7000000 + k_), "ref")
    created, posted, summands = [], [], []

    def int_array(it, a, k):
        created.append(a[1:])
        return Ranks(a[1])

    use_contract(SOLV + "::Solver.int_array", int_array)
    use_contract(SOLV + "::Solver.ensure", lambda it, a, k: posted.extend(a[1:]))
    use_contract("cspuz/constraints.py::count_true", lambda it, a, k: T("count_true", *a))
    ghost("sref_binop", lambda op, a, b: T("bin:" + op, a, b))
    watch("append", K, "less_ranks", lambda ns, v: summands.append(v))
    solver = OBJ(SOLV, "Solver", variables=mklist([]), is_answer_key=mklist([]), constraints=mklist([]))
    mark = {}

    def head_in(ns):
        mark["p"], mark["s"] = len(posted), len(summands)
        return None

    def end_in(ns, token):
        i, k = ns.i, ns.idx
        j, e = SInt(NB(_zint(i), k.t)), SInt(IE(_zint(i), k.t))
        news, newp = summands[mark["s"]:], posted[mark["p"]:]
        check("one-summand-per-incident-entry", len(news) == 1)
        if len(news) == 1:
            s_ = news[0]
            ok = isinstance(s_, T) and s_.tag == "bin:BitAnd" and len(s_.parts) == 2
            check("summand-is-a-conjunction", ok)
            if ok:
                a, b = s_.parts
                if not (isinstance(a, T) and a.tag.startswith("cmp:")):
                    a, b = b, a
                lt = isinstance(a, T) and ((a.tag == "cmp:Lt" and _is_rank(a.parts[0], j) and _is_rank(a.parts[1], i)) or
                                           (a.tag == "cmp:Gt" and _is_rank(a.parts[0], i) and _is_rank(a.parts[1], j)))
                check("summand-says-the-neighbour's-rank-is-smaller", lt)
                check("summand-says-this-entry's-edge-is-active", isinstance(b, SRef) and same(b, SRef(_z3.IntVal(7000000) + e.t)))
        if bool(i < j):
            check("ranks-of-the-two-ends-are-constrained-different-once", len(newp) == 1)
            if len(newp) == 1:
                c = newp[0]
                check("the-constraint-is-rank[i]!=rank[j]", isinstance(c, T) and c.tag == "cmp:NotEq" and
                      ((_is_rank(c.parts[0], i) and _is_rank(c.parts[1], j)) or (_is_rank(c.parts[0], j) and _is_rank(c.parts[1], i))))
        else:
            check("no-constraint-from-the-larger-end", len(newp) == 0)

    def head_out(ns):
        mark["P"] = len(posted)
        return None

    def end_out(ns, token):
        newp = posted[mark["P"]:]
        check("one-counting-constraint-per-vertex", len(newp) == 1)
        if len(newp) == 1:
            c = newp[0]
            ok = isinstance(c, T) and c.tag == "cmp:LtE" and isinstance(c.parts[0], T) and c.parts[0].tag == "count_true" and c.parts[1] == 1
            check("it-is-count_true(...)<=1", ok)
            if ok:
                check("over-exactly-the-collected-summands", len(c.parts[0].parts) == 1 and c.parts[0].parts[0] is ns.less_ranks)
                check("which-are-one-per-incident-entry-of-this-vertex", length(ns.less_ranks) == SInt(LEN(_zint(ns.i))))

    loop_spec(K, 0, inv=lambda ns: [ns.i >= 0], modifies=[], types={"less_ranks": "list:ref", "j": "int", "e": "int"}, at_head=head_out, at_end=end_out)
    loop_spec(K, 1, inv=lambda ns: [ns.i >= 0, ns.i < n, length(ns.less_ranks) == ns.idx], modifies=["less_ranks"], types={"less_ranks": "list:ref"}, at_head=head_in, at_end=end_in)
    o = call(REAL(GR, "active_edges_acyclic"), solver, xs, g)
    check("no-exception", not o.raised)
    if o.raised:
        return
    check("one-rank-array-with-domain-[0,n-1]", len(created) == 1 and And(created[0][0] == n, created[0][1] == 0, created[0][2] == n - 1))
