"""C14 — BoolGridFrame accessors are consistent with the lattice geometry (contracts).

Ghost geometric model: horizontal segment Hs(y, x), 0<=y<=h, 0<=x<w, joins points (y,x)-(y,x+1) and
separates cells (y-1,x)|(y,x); vertical Vs(y, x), 0<=y<h, 0<=x<=w, joins (y,x)-(y+1,x) and separates
(y,x-1)|(y,x); storage horizontal[y, x] / vertical[y, x] (row-major data lists).
Array reads go through the contract of BoolArray2D.__getitem__ for an (int, int) key (C13).
"""
from pyvc.api import *

GF = "cspuz/grid_frame.py"
A = "cspuz/array.py"
GR = "cspuz/graph.py"


def array2d_getitem_contract(it, args, kwargs):
    """contract of BoolArray2D.__getitem__((y, x)) with integer y, x (established in C13):
    IndexError iff an index is out of range, else data[norm(y)*W + norm(x)]"""
    self, key = args
    if not (isinstance(key, tuple) and len(key) == 2):
        raise OutOfSubset("array contract used with a non (int, int) key")
    y, x = key
    H, W = attr(self, "shape")
    valid = And(y >= 0 - H, y < H, x >= 0 - W, x < W)
    if not valid:
        raise PyRaise(IndexError("index out of bounds"))
    yy = ite(y < 0, y + H, y)
    xx = ite(x < 0, x + W, x)
    return raw_item(attr(self, "data"), yy * W + xx)


def mk_frame(h, w, tag=""):
    hz = OBJ(A, "BoolArray2D", shape=(h + 1, w), data=slist(tag + "hz", "ref", (h + 1) * w))
    vt = OBJ(A, "BoolArray2D", shape=(h, w + 1), data=slist(tag + "vt", "ref", h * (w + 1)))
    # built by the real constructor (with explicit arrays it never touches the solver), so whatever
    # state __init__ sets up is there
    fr = construct(CLS(GF, "BoolGridFrame"), None, h, w, hz, vt)
    return fr, hz, vt


def Hs(fr, y, x):
    """variable on the horizontal segment joining points (y, x)-(y, x+1)"""
    hz = attr(fr, "horizontal")
    return item(attr(hz, "data"), y * attr(fr, "width") + x) if not modelled() else raw_item(attr(hz, "data"), y * attr(fr, "width") + x)


def Vs(fr, y, x):
    vt = attr(fr, "vertical")
    idx = y * (attr(fr, "width") + 1) + x
    return item(attr(vt, "data"), idx) if not modelled() else raw_item(attr(vt, "data"), idx)


def _install():
    if CTX.mode == "sym":
        use_contract(A + "::BoolArray2D.__getitem__", array2d_getitem_contract)
    ghost("sref_classes", set())


def _hw_inputs(extra):
    def gen(case):
        for h in range(0, 4):
            for w in range(0, 4):
                for d in extra(h, w):
                    dd = dict(h=h, w=w)
                    dd.update(d)
                    yield dd
    return gen


@harness("C14", native_inputs=_hw_inputs(lambda h, w: [dict(Y=Y, X=X) for Y in range(-3, 2 * h + 4) for X in range(-3, 2 * w + 4)]))
def frame_getitem(case):
    """frame[Y, X]: (even, odd) inside the doubled box -> Hs(Y/2, (X-1)/2); (odd, even) -> Vs((Y-1)/2, X/2);
    anything else (outside, wrong parity, negative) -> IndexError"""
    h, w = sint("h"), sint("w")
    requires(And(h >= 0, w >= 0))
    fr, hz, vt = mk_frame(h, w)
    _install()
    Y, X = sint("Y"), sint("X")
    o = call(REAL(GF, "BoolGridFrame.__getitem__"), fr, (Y, X))
    inside = And(Y >= 0, Y <= 2 * h, X >= 0, X <= 2 * w)
    is_h = And(inside, Y % 2 == 0, X % 2 == 1)
    is_v = And(inside, Y % 2 == 1, X % 2 == 0)
    if o.raised:
        check("raises-only-IndexError", o.exc == "IndexError")
        check("raises-only-off-segment", And(Not(is_h), Not(is_v)))
        return
    check("returns-only-on-a-segment", Or(is_h, is_v))
    if is_h:
        check("horizontal-segment", same(o.value, Hs(fr, Y // 2, (X - 1) // 2)))
    else:
        check("vertical-segment", same(o.value, Vs(fr, (Y - 1) // 2, X // 2)))


def _members(res, expected, name):
    """the 1D array `res` holds exactly the expected variables (as a set, each position matched)"""
    data = attr(res, "data")
    n = length(data)
    check(name + ":count", n == len(expected))
    if isinstance(n, int) and n == len(expected):
        for i, e in enumerate(expected):
            check("%s:expected-%d-present" % (name, i), Or(*[same(item(data, j), e) for j in range(n)]) if n else False)
        for j in range(n):
            check("%s:result-%d-expected" % (name, j), Or(*[same(item(data, j), e) for e in expected]))



def _post_cell(fr, o, h, w, y, x, tag=""):
    """postcondition of cell_neighbors(y, x)"""
    valid = And(y >= 0, y < h, x >= 0, x < w)
    if o.raised:
        check(tag + "raises-only-IndexError", o.exc == "IndexError")
        check(tag + "raises-only-outside", Not(valid))
        return
    check(tag + "returns-only-inside", valid)
    check(tag + "is-1d-array", isinst(o.value, A, "BoolArray1D"))
    _members(o.value, [Hs(fr, y, x), Hs(fr, y + 1, x), Vs(fr, y, x), Vs(fr, y, x + 1)], tag + "cell")


def _post_vertex(fr, o, h, w, y, x, tag=""):
    """postcondition of vertex_neighbors(y, x)"""
    valid = And(y >= 0, y <= h, x >= 0, x <= w)
    if o.raised:
        check(tag + "raises-only-IndexError", o.exc == "IndexError")
        check(tag + "raises-only-outside", Not(valid))
        return
    check(tag + "returns-only-inside", valid)
    exp = []
    if y > 0:          # forks: the expected set depends on the position
        exp.append(Vs(fr, y - 1, x))
    if y < h:
        exp.append(Vs(fr, y, x))
    if x > 0:
        exp.append(Hs(fr, y, x - 1))
    if x < w:
        exp.append(Hs(fr, y, x))
    _members(o.value, exp, tag + "vertex")


@harness("C14", cases=[dict(form="two"), dict(form="tuple")],
         native_inputs=_hw_inputs(lambda h, w: [dict(y=y, x=x) for y in range(-2, h + 2) for x in range(-2, w + 2)]))
def cell_neighbors(case):
    """cell_neighbors(y, x): the four segments around cell (y, x); IndexError outside [0,h) x [0,w)"""
    h, w = sint("h"), sint("w")
    requires(And(h >= 0, w >= 0))
    fr, hz, vt = mk_frame(h, w)
    _install()
    y, x = sint("y"), sint("x")
    f = REAL(GF, "BoolGridFrame.cell_neighbors")
    o = call(f, fr, y, x) if case.form == "two" else call(f, fr, (y, x))
    _post_cell(fr, o, h, w, y, x)


@harness("C14", cases=[dict(form="two"), dict(form="tuple")],
         native_inputs=_hw_inputs(lambda h, w: [dict(y=y, x=x) for y in range(-2, h + 3) for x in range(-2, w + 3)]))
def vertex_neighbors(case):
    """vertex_neighbors(y, x): exactly the segments incident to lattice point (y, x); IndexError outside"""
    h, w = sint("h"), sint("w")
    requires(And(h >= 0, w >= 0))
    fr, hz, vt = mk_frame(h, w)
    _install()
    y, x = sint("y"), sint("x")
    f = REAL(GF, "BoolGridFrame.vertex_neighbors")
    o = call(f, fr, y, x) if case.form == "two" else call(f, fr, (y, x))
    _post_vertex(fr, o, h, w, y, x)


def _hist_inputs(case):
    for h in range(0, 3):
        for w in range(0, 3):
            for y1 in range(-1, h + 2):
                for x1 in range(-1, w + 2):
                    for y in range(-1, h + 2):
                        for x in range(-1, w + 2):
                            yield dict(h=h, w=w, y1=y1, x1=x1, y=y, x=x)


@harness("C14", cases=[dict(first=a, second=b) for a in ("cell", "vertex", "getitem", "dual", "all_edges") for b in ("cell", "vertex")],
         native_inputs=_hist_inputs)
def accessor_history(case):
    """history: after ANY one earlier accessor call on the same frame object (any position, successful or
    not), cell_neighbors / vertex_neighbors still satisfy their postcondition at any position -- the
    accessors may keep state, but it must not leak between positions or between accessors"""
    h, w = sint("h"), sint("w")
    requires(And(h >= 0, w >= 0))
    fr, hz, vt = mk_frame(h, w)
    _install()
    y1, x1 = sint("y1"), sint("x1")
    y, x = sint("y"), sint("x")
    if case.first == "cell":
        call(REAL(GF, "BoolGridFrame.cell_neighbors"), fr, y1, x1)
    elif case.first == "vertex":
        call(REAL(GF, "BoolGridFrame.vertex_neighbors"), fr, y1, x1)
    elif case.first == "getitem":
        call(REAL(GF, "BoolGridFrame.__getitem__"), fr, (y1, x1))
    elif case.first == "dual":
        call(REAL(GF, "BoolGridFrame.dual"), fr)
    else:
        call(REAL(GF, "BoolGridFrame.all_edges"), fr)
    if case.second == "cell":
        o = call(REAL(GF, "BoolGridFrame.cell_neighbors"), fr, y, x)
        _post_cell(fr, o, h, w, y, x, "after-%s:" % case.first)
    else:
        o = call(REAL(GF, "BoolGridFrame.vertex_neighbors"), fr, y, x)
        _post_vertex(fr, o, h, w, y, x, "after-%s:" % case.first)


@harness("C14", native_inputs=_hw_inputs(lambda h, w: [dict()]))
def dual_roundtrip(case):
    """dual() exchanges points and cells without moving variables; dual(dual(f)) is f"""
    h, w = sint("h"), sint("w")
    requires(And(h >= 0, w >= 0))
    fr, hz, vt = mk_frame(h, w)
    o = call(REAL(GF, "BoolGridFrame.dual"), fr)
    check("no-exception", not o.raised)
    if o.raised:
        return
    d = o.value
    check("inner-frame", isinst(d, GF, "BoolInnerGridFrame"))
    check("size-plus-one", And(attr(d, "height") == h + 1, attr(d, "width") == w + 1))
    check("arrays-exchanged", And(same(attr(d, "horizontal"), vt), same(attr(d, "vertical"), hz)))
    o2 = call(REAL(GF, "BoolInnerGridFrame.dual"), d)
    check("no-exception-2", not o2.raised)
    if o2.raised:
        return
    dd = o2.value
    check("outer-frame", isinst(dd, GF, "BoolGridFrame"))
    check("same-size", And(attr(dd, "height") == h, attr(dd, "width") == w))
    check("same-arrays", And(same(attr(dd, "horizontal"), hz), same(attr(dd, "vertical"), vt)))


@harness("C14", native_inputs=_hw_inputs(lambda h, w: [dict()]))
def all_edges_order(case):
    """all_edges() / iteration = all of horizontal (row-major), then all of vertical"""
    h, w = sint("h"), sint("w")
    requires(And(h >= 0, w >= 0))
    fr, hz, vt = mk_frame(h, w)
    o = call(REAL(GF, "BoolGridFrame.all_edges"), fr)
    check("no-exception", not o.raised)
    if o.raised:
        return
    data = attr(o.value, "data")
    nh, nv = (h + 1) * w, h * (w + 1)
    check("count", length(data) == nh + nv)
    check("horizontal-first", forall_range(nh, lambda k: same(raw_item(data, k), raw_item(attr(hz, "data"), k))))
    check("then-vertical", forall_range(nv, lambda k: same(raw_item(data, nh + k), raw_item(attr(vt, "data"), k))))
    # a second traversal of the same frame sees the same edges (history)
    o2 = call(REAL(GF, "BoolGridFrame.all_edges"), fr)
    check("second-traversal-no-exception", not o2.raised)
    if not o2.raised:
        d2 = attr(o2.value, "data")
        if check("second-traversal-same-count", length(d2) == nh + nv):
            check("second-traversal-same-edges", forall_range(nh + nv, lambda k: same(raw_item(d2, k), raw_item(data, k))))
    o3 = call(lambda: mklist(list(interp().iterate(interp().call(interp().getattr(fr, "__iter__"), [], {})) or [])) if modelled() and CTX.mode != "sym" else (None if modelled() else list(fr)))
    if not modelled():
        check("iteration-after-all_edges-sees-every-edge", not o3.raised and len(o3.value) == nh + nv)


FGF = GR + "::_from_grid_frame"


@harness("C14", native_inputs=_hw_inputs(lambda h, w: [dict()]))
def from_grid_frame(case):
    """graph inferred by the loop constraints: edge k joins the two lattice points its variable's segment
    joins (append-site obligations), points are numbered y*(w+1)+x, the edge count is h(w+1)+(h+1)w"""
    h, w = sint("h"), sint("w")
    requires(And(h >= 0, w >= 0))
    fr, hz, vt = mk_frame(h, w)
    if CTX.mode == "sym":
        _install()
        appended = []
        added = []

        def on_append(ns, value):
            appended.append(value)

        def add_edge(it, args, kwargs):
            g, i, j = args
            added.append((i, j))
            check("edge-lists-stay-aligned", len(appended) == len(added))
            var = appended[-1]
            W1 = w + 1
            yy, xx = i // W1, i % W1
            check("endpoint-is-a-lattice-point", And(i >= 0, i < (h + 1) * W1))
            horizontal = And(j == i + 1, xx < w)
            vertical = And(j == i + W1, yy < h)
            check("joins-neighbouring-points", Or(horizontal, vertical))
            if horizontal:
                check("variable-of-that-horizontal-segment", same(var, Hs(fr, yy, xx)))
            else:
                check("variable-of-that-vertical-segment", same(var, Vs(fr, yy, xx)))
            return None

        watch("append", FGF, "edges", on_append)
        use_contract(GR + "::Graph.add_edge", add_edge)
        use_contract(GF + "::BoolGridFrame.__getitem__", frame_getitem_contract(fr))
        row = lambda y: y * (2 * w + 1)

        def inv_outer(ns):
            return [length(ns.edges) == ite(ns.y <= h, row(ns.y), row(h) + w)]

        def inv_inner(ns):
            full = ns.y != h
            cnt = ite(full, 2 * ns.x - ite(ns.x == w + 1, 1, 0), ite(ns.x <= w, ns.x, w))
            return [length(ns.edges) == row(ns.y) + cnt, ns.y >= 0, ns.y <= h]

        mark = {}

        def head_inner(ns):
            mark["n"] = len(appended)
            return None

        def end_inner(ns, token):
            # completeness per lattice point: exactly its downward and its rightward segment (when they exist), so
            # every segment of the frame is listed exactly once (each has a unique upper / left end point)
            new = appended[mark["n"]:]
            want = []
            if bool(ns.y != h):
                want.append(Vs(fr, ns.y, ns.x))
            if bool(ns.x != w):
                want.append(Hs(fr, ns.y, ns.x))
            check("this-point-contributes-exactly-its-down-and-right-segments", len(new) == len(want))
            if len(new) == len(want):
                if len(want) == 1:
                    check("the-contributed-segment-is-the-expected-one", same(new[0], want[0]))
                elif len(want) == 2:
                    check("the-contributed-segments-are-the-expected-ones",
                          Or(And(same(new[0], want[0]), same(new[1], want[1])), And(same(new[0], want[1]), same(new[1], want[0]))))

        loop_spec(FGF, 0, inv=inv_outer, modifies=["edges"], types={"edges": "list:ref", "x": "int"})
        loop_spec(FGF, 1, inv=inv_inner, modifies=["edges"], types={"edges": "list:ref"}, at_head=head_inner, at_end=end_inner)
    o = call(REAL(GR, "_from_grid_frame"), fr)
    check("no-exception", not o.raised)
    if o.raised:
        return
    edges, graph = o.value
    total = h * (w + 1) + (h + 1) * w
    check("edge-count", length(edges) == total)
    check("vertex-count", attr(graph, "num_vertices") == (h + 1) * (w + 1))
    if CTX.mode != "sym":
        ge = attr(graph, "edges")
        check("graph-edge-count", length(ge) == total)
        seen = set()
        for k in range(total):
            i, j = item(ge, k)
            yy, xx = divmod(i, w + 1)
            var = item(edges, k)
            if j == i + 1 and xx < w:
                check("variable-of-that-horizontal-segment", same(var, Hs(fr, yy, xx)))
                seen.add(("h", yy, xx))
            else:
                check("variable-of-that-vertical-segment", j == i + w + 1 and yy < h and same(var, Vs(fr, yy, xx)))
                seen.add(("v", yy, xx))
        check("every-segment-exactly-once", len(seen) == total)


def frame_getitem_contract(fr):
    """contract of BoolGridFrame.__getitem__ as proved by frame_getitem"""
    def c(it, args, kwargs):
        self, key = args
        Y, X = key
        h, w = attr(self, "height"), attr(self, "width")
        inside = And(Y >= 0, Y <= 2 * h, X >= 0, X <= 2 * w)
        is_h = And(inside, Y % 2 == 0, X % 2 == 1)
        is_v = And(inside, Y % 2 == 1, X % 2 == 0)
        if is_h:
            return Hs(self, Y // 2, (X - 1) // 2)
        if is_v:
            return Vs(self, (Y - 1) // 2, X // 2)
        raise PyRaise(IndexError("index does not specify a loop edge"))
    return c


# ------------------------------------------------------------------------------------------------ default arrays
SOLV = "cspuz/solver.py"


@harness("C14", cases=[dict(order=o) for o in ("dual-first", "edges-first", "dual-twice")],
         native_inputs=_hw_inputs(lambda h, w: [dict()]))
def default_arrays(case):
    """BoolGridFrame(solver, h, w) without explicit arrays: the frame owns ONE array of shape (h+1, w) and ONE of shape
    (h, w+1), whatever is called first; dual() hands over exactly those two objects (exchanged), never fresh ones, and
    the dual of the dual has the frame's own arrays again"""
    h, w = sint("h"), sint("w")
    requires(And(h >= 0, w >= 0))
    made = []
    if modelled():
        def bool_array(it, a, k):
            shp = a[1]
            if not (isinstance(shp, tuple) and len(shp) == 2):
                raise OutOfSubset("bool_array with a non-pair shape")
            arr = OBJ(A, "BoolArray2D", shape=(shp[0], shp[1]), data=slist("arr%d" % len(made), "ref", shp[0] * shp[1]))
            made.append(arr)
            return arr
        use_contract(SOLV + "::Solver.bool_array", bool_array)
        solver = OBJ(SOLV, "Solver", variables=mklist([]), is_answer_key=mklist([]), constraints=mklist([]))
    else:
        solver = construct(CLS(SOLV, "Solver"))
    fr = construct(CLS(GF, "BoolGridFrame"), solver, h, w)
    if case.order == "edges-first":
        hz0, vt0 = attr(fr, "horizontal"), attr(fr, "vertical")
    o = call(REAL(GF, "BoolGridFrame.dual"), fr)
    check("no-exception", not o.raised)
    if o.raised:
        return
    d = o.value
    if case.order == "dual-twice":
        o = call(REAL(GF, "BoolGridFrame.dual"), fr)
        check("no-exception-second-dual", not o.raised)
        if o.raised:
            return
        check("both-duals-share-the-arrays", And(same(attr(o.value, "horizontal"), attr(d, "horizontal")),
                                                 same(attr(o.value, "vertical"), attr(d, "vertical"))))
    hz, vt = attr(fr, "horizontal"), attr(fr, "vertical")
    if case.order == "edges-first":
        check("the-frame-keeps-its-arrays", And(same(hz, hz0), same(vt, vt0)))
    check("shapes", And(attr(hz, "shape")[0] == h + 1, attr(hz, "shape")[1] == w, attr(vt, "shape")[0] == h, attr(vt, "shape")[1] == w + 1))
    check("the-dual-has-the-frame's-own-arrays-exchanged", And(same(attr(d, "horizontal"), vt), same(attr(d, "vertical"), hz)))
    if modelled():
        check("two-arrays-are-made-in-all", len(made) == 2)
    o2 = call(REAL(GF, "BoolInnerGridFrame.dual"), d)
    check("no-exception-dual-of-dual", not o2.raised)
    if o2.raised:
        return
    dd = o2.value
    check("dual-of-dual-has-the-same-arrays", And(same(attr(dd, "horizontal"), hz), same(attr(dd, "vertical"), vt)))
    check("and-the-same-size", And(attr(dd, "height") == h, attr(dd, "width") == w))
