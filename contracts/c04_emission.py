"""C04 — emission contract of _active_vertices_connected (rank/root encoding, acyclic = False) and the lemma that
carries it to the property.

Proved here by pyvc for every graph (ghost view of the incidence lists, row i = entries (NB(i,k), IE(i,k))):
  * one array of n rank variables with domain [0, n-1] and one array of n root flags are created;
  * for every vertex i exactly one constraint is posted:
        x_i  ->  count_true( [ (rank[NB(i,k)] < rank[i]) & x_{NB(i,k)}  for every entry k of row i ]  ++ [is_root[i]] ) >= 1
  * after the loop exactly one more: count_true(is_root) <= 1.
With adj(i, j) := "j occurs in row i" (symmetric by the representation invariant of Graph, C04/graph_add_edge) this is
      exists rank, is_root.  (forall i. x_i -> (exists j. adj i j and rank j < rank i and x_j) or is_root i)
                              and at most one root,
and lean/Encoders.lean (namespace C04) proves (Lean 4 + Mathlib, no sorry): that schema is satisfiable  <=>  any two active
vertices are joined by a walk through active vertices (no active vertex counts as connected).
"""
import z3 as _z3

from pyvc.api import *
from pyvc.values import VList, HostFn, GhostVal, AbstractSeq, PointwiseSeq
from pyvc.sym import _zint
from contracts.c04_graph_plumbing import IncView, EdgeList
from contracts.c09_emission import T, Ranks, _is_rank

GR = "cspuz/graph.py"
SOLV = "cspuz/solver.py"
K = GR + "::_active_vertices_connected"
I = _z3.IntSort()


class Flags(GhostVal):
    """the is_root array: element j is the tagged record T('root', j)"""

    def __init__(self, n):
        self.n = n

    def pv_len(self):
        return self.n

    def pv_getitem(self, j):
        if not bool((j >= 0) & (j < self.n)):
            check("root-index-is-a-vertex", False)
            raise PathEnd("root index")
        return T("root", j)


@harness("C04", structural=True, cases=[dict(acyclic=False), dict(acyclic=True)])
def connected_emission(case):
    """acyclic=False: x_i -> count_true(lower active neighbours ++ [is_root i]) >= 1; acyclic=True: == 1, and
    rank[i] != rank[j] is posted for every incident entry (j, e) of i with i < j (lemma C04T.enc_iff_tree)"""
    if CTX.mode != "sym":
        return
    n, m = sint("n"), sint("m")
    requires(And(n >= 0, m >= 0))
    LEN, NB, IE = _z3.Function("LEN", I, I), _z3.Function("NB", I, I, I), _z3.Function("IE", I, I, I)
    inc = IncView(n, m, LEN, NB, IE)
    g = OBJ(GR, "Graph", num_vertices=n, edges=EdgeList(m, _z3.Function("U", I, I), _z3.Function("V", I, I)), incident_edges=inc)
    k_ = _z3.Int("k!x")
    xs = VList(None, n.t, _z3.Lambda([k_], 7000000 + k_), "ref")
    created, posted = [], []
    flags = {}

    def int_array(it, a, k):
        created.append(("int",) + tuple(a[1:]))
        return Ranks(a[1])

    def bool_array(it, a, k):
        created.append(("bool",) + tuple(a[1:]))
        flags["obj"] = Flags(a[1])
        return flags["obj"]

    use_contract(SOLV + "::Solver.int_array", int_array)
    use_contract(SOLV + "::Solver.bool_array", bool_array)
    use_contract(SOLV + "::Solver.ensure", lambda it, a, k: posted.extend(a[1:]))
    use_contract("cspuz/constraints.py::count_true", lambda it, a, k: T("count_true", *a))
    use_contract("cspuz/constraints.py::then", lambda it, a, k: T("then", *a))
    ghost("sref_binop", lambda op, a, b: T("bin:" + op, a, b))
    solver = OBJ(SOLV, "Solver", variables=mklist([]), is_answer_key=mklist([]), constraints=mklist([]))
    mark = {}

    def head(ns):
        mark["p"] = len(posted)
        return None

    def x_of(j):
        return SRef(_z3.IntVal(7000000) + _zint(j))

    def end(ns, token):
        i = ns.i
        newp = posted[mark["p"]:]
        if case.acyclic:
            # (on the path that left the inner loop, only what was posted after it is in the log)
            newp = newp[-1:]
        check("one-constraint-per-vertex", len(newp) == 1)
        if len(newp) != 1:
            return
        c = newp[0]
        ok = isinstance(c, T) and c.tag == "then" and len(c.parts) == 2 and isinstance(c.parts[0], SRef) and same(c.parts[0], x_of(i))
        check("it-is-conditional-on-the-vertex-being-active", ok)
        if not ok:
            return
        body = c.parts[1]
        ok = isinstance(body, T) and body.tag == ("cmp:Eq" if case.acyclic else "cmp:GtE") and isinstance(body.parts[0], T) \
            and body.parts[0].tag == "count_true" and body.parts[1] == 1 and len(body.parts[0].parts) == 1
        check("and-asks-for-exactly-one-true-item" if case.acyclic else "and-asks-for-at-least-one-true-item", ok)
        if not ok:
            return
        items = body.parts[0].parts[0]
        ln = SInt(LEN(_zint(i)))
        check("items-are-one-per-incident-entry-plus-the-root-flag", length(items) == ln + 1)
        k = fresh_int("entry")
        requires(And(k >= 0, k < ln))
        it_k = interp().getitem(items, k)
        j = SInt(NB(_zint(i), k.t))
        ok = isinstance(it_k, T) and it_k.tag == "bin:BitAnd" and len(it_k.parts) == 2
        check("entry-item-is-a-conjunction", ok)
        if ok:
            a, b = it_k.parts
            if not (isinstance(a, T) and a.tag.startswith("cmp:")):
                a, b = b, a
            lt = isinstance(a, T) and ((a.tag == "cmp:Lt" and _is_rank(a.parts[0], j) and _is_rank(a.parts[1], i)) or
                                       (a.tag == "cmp:Gt" and _is_rank(a.parts[0], i) and _is_rank(a.parts[1], j)))
            check("entry-item-says-the-neighbour's-rank-is-smaller", lt)
            check("entry-item-says-that-neighbour-is-active", isinstance(b, SRef) and same(b, x_of(j)))
        last = interp().getitem(items, ln)
        check("last-item-is-this-vertex's-root-flag", isinstance(last, T) and last.tag == "root" and last.parts[0] == i)

    loop_spec(K, 0, inv=lambda ns: [ns.i >= 0], modifies=[], types={"less_ranks": "opaque", "j": "int"}, at_head=head, at_end=end)
    if case.acyclic:
        cur = {}
        from contracts.c04_graph_plumbing import IncRowView as _Row

        def head_in(ns):
            mark["q"] = len(posted)
            return None

        def end_in(ns, token):
            i, j = ns.i, ns.j
            newq = posted[mark["q"]:]
            if bool(i < j):
                check("ranks-of-the-two-ends-are-constrained-different-once", len(newq) == 1)
                if len(newq) == 1:
                    c = newq[0]
                    check("the-constraint-is-rank[i]!=rank[j]", isinstance(c, T) and c.tag == "cmp:NotEq" and
                          ((_is_rank(c.parts[0], i) and _is_rank(c.parts[1], j)) or (_is_rank(c.parts[0], j) and _is_rank(c.parts[1], i))))
            else:
                check("no-constraint-from-the-larger-end", len(newq) == 0)

        loop_spec(K, 1, inv=lambda ns: [ns.i >= 0, ns.i < n], modifies=[], types={"j": "int"}, at_head=head_in, at_end=end_in)
    # row entries: neighbours are vertices (representation invariant of Graph)
    orig = inc.pv_getitem

    def row(v):
        r = orig(v)
        base = r.pv_getitem

        def getitem(k):
            t = base(k)
            assume_fact(mk_bool(_z3.And(t[0].t >= 0, t[0].t < n.t)))
            return t
        r.pv_getitem = getitem

        def it_():
            def one():
                k = fresh_int("pos")
                requires(And(k >= 0, k < SInt(LEN(_zint(v)))))
                return getitem(k)
            return AbstractSeq(one, "incident entries")
        r.pv_iter = it_
        return r

    inc.pv_getitem = row
    n_before = len(posted)
    o = call(REAL(GR, "_active_vertices_connected"), solver, xs, g, case.acyclic, False)
    check("no-exception", not o.raised)
    if o.raised:
        return
    check("one-rank-array-[0,n-1]-and-one-flag-array", len(created) == 2 and created[0][0] == "int" and created[1][0] == "bool"
          and And(created[0][1] == n, created[0][2] == 0, created[0][3] == n - 1, created[1][1] == n))
    # on the loop-exit path only what was posted after the loop is in the log
    tail = posted[-1:] if posted else []
    ok = len(tail) == 1 and isinstance(tail[0], T) and tail[0].tag == "cmp:LtE" and isinstance(tail[0].parts[0], T) and tail[0].parts[0].tag == "count_true" \
        and tail[0].parts[1] == 1 and len(tail[0].parts[0].parts) == 1 and tail[0].parts[0].parts[0] is flags.get("obj")
    check("finally-at-most-one-root", ok)
