"""C13 — array indexing and slicing follow Python nested-list semantics (contracts).

Functions under contract (cspuz/array.py): _parse_range, _range_size, Array2D._getitem_impl,
BoolArray2D/IntArray2D.__getitem__, flatten, reshape/_reshape, BoolArray1D/IntArray1D.__getitem__.
"""

from pyvc.api import *
from specs import pyslice

A = "cspuz/array.py"
TAGS = ("none", "int")
SLICE_CASES = [dict(start=a, stop=b, step=c) for a in TAGS for b in TAGS for c in TAGS]


def _opt(tag, name):
    return None if tag == "none" else sint(name)


def _slice_inputs(case, sizes=range(0, 5), rng=range(-7, 8)):
    def dom(tag):
        return [None] if tag == "none" else list(rng)
    for size in sizes:
        for a in dom(case.start):
            for b in dom(case.stop):
                for c in dom(case.step):
                    if c == 0:
                        continue
                    d = dict(size=size)
                    if a is not None:
                        d["start"] = a
                    if b is not None:
                        d["stop"] = b
                    if c is not None:
                        d["step"] = c
                    yield d


@harness("C13", cases=SLICE_CASES, native_inputs=_slice_inputs)
def parse_range_slice(case):
    """_parse_range(size, slice) followed by _range_size selects range(*slice.indices(size))"""
    size = sint("size")
    requires(size >= 0)
    start, stop, step = _opt(case.start, "start"), _opt(case.stop, "stop"), _opt(case.step, "step")
    if step is not None:
        requires(step != 0)
    o = call(REAL(A, "_parse_range"), size, slice(start, stop, step))
    if not check("no-exception", not o.raised) or o.raised:
        return
    fixed, a, b, c = o.value
    o2 = call(REAL(A, "_range_size"), a, b, c)
    if not check("range_size-no-exception", not o2.raised) or o2.raised:
        return
    n = o2.value
    s0, e0, st0 = pyslice.indices(size, start, stop, step)
    n0 = pyslice.range_len(s0, e0, st0)
    check("kind", fixed is False)
    check("len", n == n0)
    check("first-and-step", implies(n0 > 0, And(a == s0, c == st0)))


def _int_inputs(case):
    for size in range(0, 5):
        for k in range(-7, 8):
            yield dict(size=size, k=k)


@harness("C13", native_inputs=_int_inputs)
def parse_range_int(case):
    """_parse_range(size, int k): k normalised like a list index, IndexError exactly when a list raises it"""
    size = sint("size")
    requires(size >= 0)
    k = sint("k")
    valid = And(k >= 0 - size, k < size)
    o = call(REAL(A, "_parse_range"), size, k)
    if o.raised:
        check("raises-only-IndexError", o.exc == "IndexError")
        check("raises-only-when-list-does", Not(valid))
        return
    check("returns-only-when-valid", valid)
    fixed, a, b, c = o.value
    check("kind", fixed is True)
    check("position", a == pyslice.norm_index(k, size))
    o2 = call(REAL(A, "_range_size"), a, b, c)
    check("one-element", And(not o2.raised, o2.value == 1))


def _rs_inputs(case):
    for a in range(-5, 6):
        for b in range(-5, 6):
            for c in range(-4, 5):
                yield dict(a=a, b=b, c=c)
    # Python integers are unbounded: steps and bounds far beyond any float (an implementation through floating-point division
    # rounds, overflows or underflows there)
    for big in (2 ** 53 + 1, 10 ** 30, 10 ** 400):
        for (a, b, c) in ((0, 1, big), (0, 3, big), (2, -1, -big), (0, big, 1), (0, big, big), (0, big + 1, big), (-big, 0, big),
                          (0, 2 * big + 1, 2), (3, 3, big), (1, 0, big)):
            yield dict(a=a, b=b, c=c)


@harness("C13", native_inputs=_rs_inputs)
def range_size(case):
    """_range_size(a, b, c) == len(range(a, b, c)); ValueError iff c == 0"""
    a, b, c = sint("a"), sint("b"), sint("c")
    o = call(REAL(A, "_range_size"), a, b, c)
    if o.raised:
        check("raises-only-ValueError-on-zero-step", And(o.exc == "ValueError", c == 0))
        return
    check("nonzero-step", c != 0)
    check("len", o.value == pyslice.range_len(a, b, c))


# ---------------------------------------------------------------------------------------------
# lemmas about the specification (each is its own proved obligation; used by instantiation)
@harness("C13", cases=SLICE_CASES, group="lemma")
def lemma_slice_in_bounds(case):
    """every index selected by slice.indices(size) lies inside [0, size)"""
    size = sint("size")
    requires(size >= 0)
    start, stop, step = _opt(case.start, "start"), _opt(case.stop, "stop"), _opt(case.step, "step")
    if step is not None:
        requires(step != 0)
    s0, e0, st0 = pyslice.indices(size, start, stop, step)
    n0 = pyslice.range_len(s0, e0, st0)
    r = sint("r")
    requires(And(r >= 0, r < n0))
    check("in-bounds", And(s0 + r * st0 >= 0, s0 + r * st0 < size))


@harness("C13", cases=SLICE_CASES, group="lemma")
def lemma_range_len_nonneg(case):
    size = sint("size")
    requires(size >= 0)
    start, stop, step = _opt(case.start, "start"), _opt(case.stop, "stop"), _opt(case.step, "step")
    if step is not None:
        requires(step != 0)
    s0, e0, st0 = pyslice.indices(size, start, stop, step)
    check("nonneg", pyslice.range_len(s0, e0, st0) >= 0)


@harness("C13", group="lemma")
def lemma_row_major(case):
    """0 <= y < H, 0 <= x < W  =>  0 <= y*W + x < H*W ; and (y, x) is recovered by divmod"""
    H, W, y, x = sint("H"), sint("W"), sint("y"), sint("x")
    requires(And(y >= 0, y < H, x >= 0, x < W))
    check("nonneg", y * W + x >= 0)
    check("below", y * W + x < H * W)


@harness("C13", group="lemma")
def lemma_divmod(case):
    """p = r*n + c with 0 <= c < n  =>  p // n == r and p % n == c   (Python floor semantics)"""
    p, n, r, c = sint("p"), sint("n"), sint("r"), sint("c")
    requires(And(c >= 0, c < n, p == r * n + c))
    check("div", p // n == r)
    check("mod", p % n == c)


@harness("C13", group="lemma")
def lemma_divmod_range(case):
    """0 <= p < ny*nx  =>  0 <= p % nx < nx  and  0 <= p // nx < ny"""
    p, ny, nx = sint("p"), sint("ny"), sint("nx")
    requires(And(p >= 0, p < ny * nx, nx >= 0, ny >= 0))
    check("nx-positive", nx > 0)
    r, c = p // nx, p % nx
    check("mod-range", And(c >= 0, c < nx))
    check("div-nonneg", r >= 0)
    check("decomp", p == r * nx + c)
    check("div-below", r < ny)


# ---------------------------------------------------------------------------------------------
# Array2D._getitem_impl, verified against the *contracts* of _parse_range / _range_size
AXIS_KINDS = ["int"] + ["slice:%s:%s:%s" % (a, b, c) for a in TAGS for b in TAGS for c in TAGS]


def _axis_key(kind, pfx):
    if kind == "int":
        return sint(pfx + "k")
    _, a, b, c = kind.split(":")
    start, stop, step = _opt(a, pfx + "start"), _opt(b, pfx + "stop"), _opt(c, pfx + "step")
    if step is not None:
        requires(step != 0)
        if step > 0:    # case split on the sign (keeps each solver query simple)
            pass
    return slice(start, stop, step)


def _axis_spec(size, key):
    """expected selection on one axis: fixed?, valid?, first index, step, count.
    In sym mode the count of a slice is an *opaque* constant n >= 0 standing for
    len(range(*slice.indices(size))): the proof of _getitem_impl needs only the facts stated by the
    lemmas (hide the definition, `opaque/reveal`), which keeps division out of its queries."""
    if isinstance(key, slice):
        s0, e0, st0 = pyslice.indices(size, key.start, key.stop, key.step)
        if CTX.mode == "sym":
            memo = ghost("axis", {})
            k = repr((size, key.start, key.stop, key.step))
            if k not in memo:
                n = fresh_int("count")
                lemma("C13/lemma_range_len_nonneg", n >= 0)
                memo[k] = n
            n = memo[k]
        else:
            n = pyslice.range_len(s0, e0, st0)
        return dict(fixed=False, valid=True, first=s0, step=st0, count=n)
    return dict(fixed=True, valid=And(key >= 0 - size, key < size), first=pyslice.norm_index(key, size), step=1, count=1)


def parse_range_contract(it, args, kwargs):
    """contract of _parse_range as established by parse_range_slice / parse_range_int: for a slice
    the returned triple (a, b, c) has c == step, _range_size(a, b, c) == n (the spec count) and,
    if n > 0, a == first."""
    size, key = args
    check("pre:_parse_range:size>=0", size >= 0)
    if isinstance(key, slice):
        if key.step is not None:
            check("pre:_parse_range:step!=0", key.step != 0)
        sp = _axis_spec(size, key)
        a, b = fresh_int("pr_a"), fresh_int("pr_b")
        c = sp["step"]
        requires(implies(sp["count"] > 0, a == sp["first"]))
        ghost("triples", []).append((a, b, c, sp["count"]))
        return (False, a, b, c)
    valid = And(key >= 0 - size, key < size)
    if not valid:
        raise PyRaise(IndexError("index out of bounds"))
    a, b, c = pyslice.norm_index(key, size), fresh_int("pr_b"), fresh_int("pr_c")
    requires(c != 0)
    ghost("triples", []).append((a, b, c, 1))
    return (True, a, b, c)


def range_size_contract(it, args, kwargs):
    a, b, c = args
    for (a0, b0, c0, n) in ghost("triples", []):
        if a is a0 and b is b0:
            return n
    if c == 0:
        raise PyRaise(ValueError("step must not be zero"))
    return pyslice.range_len(a, b, c)


GI = A + "::Array2D._getitem_impl"


def _gi_inputs(case):
    def dom(kind, pfx):
        if kind == "int":
            return [{pfx + "k": k} for k in range(-4, 5)]
        _, a, b, c = kind.split(":")
        out = []
        rng = [-5, -3, -2, -1, 0, 1, 2, 4]
        for s in ([None] if a == "none" else rng):
            for e in ([None] if b == "none" else rng):
                for st in ([None] if c == "none" else [-3, -2, -1, 1, 2, 3]):
                    d = {}
                    if s is not None:
                        d[pfx + "start"] = s
                    if e is not None:
                        d[pfx + "stop"] = e
                    if st is not None:
                        d[pfx + "step"] = st
                    out.append(d)
        return out
    shapes = [(0, 0), (0, 2), (2, 0), (1, 1), (1, 3), (3, 1), (2, 3), (3, 3)]
    ys = dom(case.ky, "y")
    xs = dom(case.kx, "x") if case.kx != "absent" else [{}]
    stride = max(1, (len(ys) * len(xs)) // 400)
    n = 0
    for (H, W) in shapes:
        for dy in ys:
            for dx in xs:
                n += 1
                if n % stride:
                    continue
                d = dict(H=H, W=W)
                d.update(dy)
                d.update(dx)
                yield d


GI_CASES = [dict(ky=a, kx=b) for a in AXIS_KINDS for b in AXIS_KINDS] + [dict(ky=a, kx="absent") for a in AXIS_KINDS]


@harness("C13", cases=GI_CASES, native_inputs=_gi_inputs)
def getitem_2d(case):
    """Array2D._getitem_impl(key) selects exactly [row[kx] for row in L[ky]] (row-major), with the
    result kind/shape of the reading, IndexError exactly for an out-of-range integer component"""
    H, W = sint("H"), sint("W")
    requires(And(H >= 0, W >= 0))
    data = slist("d", "ref", H * W)
    arr = OBJ(A, "Array2D", shape=(H, W), data=data)
    ky = _axis_key(case.ky, "y")
    if case.kx == "absent":
        key = ky
        kx = slice(None, None, None)
    else:
        kx = _axis_key(case.kx, "x")
        key = (ky, kx)
    sy, sx = _axis_spec(H, ky), _axis_spec(W, kx)
    ny, nx = sy["count"], sx["count"]

    def spec_index(p, with_lemmas):
        """flat index into arr.data of the element at result position p (row-major over ny x nx)"""
        r, c = p // nx, p % nx
        yy = sy["first"] + r * sy["step"]
        xx = sx["first"] + c * sx["step"]
        if with_lemmas:
            lemma("C13/lemma_divmod_range", And(nx > 0, c >= 0, c < nx, r >= 0, r < ny, p == r * nx + c))
            if not sy["fixed"]:
                lemma("C13/lemma_slice_in_bounds", And(yy >= 0, yy < H))
            if not sx["fixed"]:
                lemma("C13/lemma_slice_in_bounds", And(xx >= 0, xx < W))
            lemma("C13/lemma_row_major", implies(And(yy >= 0, yy < H, xx >= 0, xx < W),
                                                 And(yy * W + xx >= 0, yy * W + xx < H * W)))
        return yy * W + xx

    def on_append(ns, value):
        idx = spec_index(length(ns.data), False)
        check("elem-spec-index-in-bounds", And(idx >= 0, idx < H * W))
        check("elem-is-the-selected-one", same(value, raw_item(data, idx)))

    if CTX.mode == "sym":
        use_contract(A + "::_parse_range", parse_range_contract)
        use_contract(A + "::_range_size", range_size_contract)
        loop_spec(GI, 1, inv=lambda ns: [length(ns.data) == ns.i], modifies=["data"], types={"data": "list:ref"},
                  at_head=lambda ns: spec_index(ns.i, True))
        watch("append", GI, "data", on_append)
    o = call(REAL(A, "Array2D._getitem_impl"), arr, key)
    valid = And(sy["valid"], sx["valid"])
    if o.raised:
        check("raises-only-IndexError", o.exc == "IndexError")
        check("raises-only-when-list-does", Not(valid))
        return
    check("returns-only-when-valid", valid)
    res = o.value
    if sy["fixed"] and sx["fixed"]:
        check("scalar", same(res, raw_item(data, sy["first"] * W + sx["first"])))
        return
    if sy["fixed"] or sx["fixed"]:
        check("kind-1d", And(isinst(res, A, "Array1D"), not isinst(res, A, "Array2D")))
        rdata = attr(res, "data")
        check("len-1d", length(rdata) == ny * nx)
        shape = attr(res, "shape")
        check("shape-1d", And(len(shape) == 1, shape[0] == ny * nx))
    else:
        check("kind-2d", isinst(res, A, "Array2D"))
        rdata = attr(res, "data")
        check("len-2d", length(rdata) == ny * nx)
        shape = attr(res, "shape")
        check("shape-2d", And(len(shape) == 2, shape[0] == ny, shape[1] == nx))
    if CTX.mode != "sym" and length(rdata) == ny * nx:
        for p in range(length(rdata)):
            check("elem-is-the-selected-one", same(item(rdata, p), item(data, spec_index(p, False))))


# ---------------------------------------------------------------------------------------------
# wrappers: BoolArray2D/IntArray2D.__getitem__ re-wrap what _getitem_impl returns (by its contract)
@harness("C13", cases=[dict(cls=c, res=r) for c in ("BoolArray2D", "IntArray2D") for r in ("scalar", "1d", "2d", "raise")])
def getitem_wrapper(case):
    """__getitem__ returns the scalar unchanged, or the same elements in the same order and shape in the
    array class of the receiver; IndexError propagates"""
    if CTX.mode != "sym":
        return
    H, W = sint("H"), sint("W")
    requires(And(H >= 0, W >= 0))
    arr = OBJ(A, case.cls, shape=(H, W), data=slist("d", "ref", H * W))

    def _element_class(v, cls):
        # an element of an array is an expression (or literal), never itself an array; its expression class is unknown
        if getattr(cls, "name", "").startswith(("Array", "BoolArray", "IntArray")):
            return False
        raise OutOfSubset("the code inspects the class of an array element (%s)" % getattr(cls, "name", cls))
    ghost("sref_isinstance", _element_class)
    n, a, b = sint("n"), sint("a"), sint("b")
    requires(And(n >= 0, a >= 0, b >= 0))
    if case.res == "scalar":
        inner = sref("elem")
    elif case.res == "1d":
        inner = OBJ(A, "Array1D", shape=(n,), data=slist("r1", "ref", n))
    elif case.res == "2d":
        inner = OBJ(A, "Array2D", shape=(a, b), data=slist("r2", "ref", a * b))
    else:
        inner = None

    def impl(it, args, kwargs):
        if inner is None:
            raise PyRaise(IndexError("index out of bounds"))
        return inner

    use_contract(GI, impl)
    one = "BoolArray1D" if case.cls.startswith("Bool") else "IntArray1D"
    o = call(REAL(A, case.cls + ".__getitem__"), arr, Opaque("key"))
    if case.res == "raise":
        check("IndexError-propagates", o.exc == "IndexError")
        return
    check("no-exception", not o.raised)
    if o.raised:
        return
    r = o.value
    if case.res == "scalar":
        check("scalar-unchanged", same(r, inner))
        return
    src = attr(inner, "data")
    if case.res == "1d":
        check("class-1d", isinst(r, A, one))
        check("shape-1d", And(len(attr(r, "shape")) == 1, attr(r, "shape")[0] == n))
        check("length", length(attr(r, "data")) == n)
        check("same-elements-in-order", forall_range(n, lambda k: same(raw_item(attr(r, "data"), k), raw_item(src, k))))
    else:
        check("class-2d", isinst(r, A, case.cls))
        sh = attr(r, "shape")
        check("shape-2d", And(len(sh) == 2, sh[0] == a, sh[1] == b))
        check("length", length(attr(r, "data")) == a * b)
        check("same-elements-in-order", forall_range(a * b, lambda k: same(raw_item(attr(r, "data"), k), raw_item(src, k))))


def _shape_inputs(case):
    for H in range(0, 4):
        for W in range(0, 4):
            for a in range(0, 5):
                for b in range(0, 5):
                    yield dict(H=H, W=W, a=a, b=b)


def _native_array(cls, H, W):
    """a real array object of the class with H*W distinct opaque elements (bypassing element checks)"""
    return OBJ(A, cls, shape=(H, W) if cls.endswith("2D") else (H * W,), data=slist("d", "ref", H * W))


@harness("C13", cases=[dict(cls=c) for c in ("BoolArray1D", "IntArray1D", "BoolArray2D", "IntArray2D")], native_inputs=_shape_inputs)
def reshape_flatten(case):
    """reshape((a, b)): ValueError iff a*b != number of elements, else the same elements in the same row-major
    order with the new shape, in the 2D class of the same element kind; flatten(): same elements, 1D"""
    H, W = sint("H"), sint("W")
    requires(And(H >= 0, W >= 0))
    arr = _native_array(case.cls, H, W)
    src = attr(arr, "data")
    a, b = sint("a"), sint("b")
    requires(And(a >= 0, b >= 0))
    two = "BoolArray2D" if case.cls.startswith("Bool") else "IntArray2D"
    one = "BoolArray1D" if case.cls.startswith("Bool") else "IntArray1D"
    o = call(REAL(A, case.cls + ".reshape"), arr, (a, b))
    fits = a * b == H * W
    if o.raised:
        check("raises-only-ValueError", o.exc == "ValueError")
        check("raises-only-on-size-mismatch", Not(fits))
    else:
        check("returns-only-when-sizes-match", fits)
        r = o.value
        check("class", isinst(r, A, two))
        sh = attr(r, "shape")
        check("shape", And(len(sh) == 2, sh[0] == a, sh[1] == b))
        check("length", length(attr(r, "data")) == H * W)
        check("row-major-order-preserved", forall_range(H * W, lambda k: same(raw_item(attr(r, "data"), k), raw_item(src, k))))
    if case.cls.endswith("2D"):
        o2 = call(REAL(A, case.cls + ".flatten"), arr)
        check("flatten-no-exception", not o2.raised)
        if not o2.raised:
            f = o2.value
            check("flatten-class", isinst(f, A, one))
            check("flatten-shape", And(len(attr(f, "shape")) == 1, attr(f, "shape")[0] == H * W))
            check("flatten-order", forall_range(H * W, lambda k: same(raw_item(attr(f, "data"), k), raw_item(src, k))))


def _g1_inputs(case):
    for n in range(0, 5):
        if case.key == "int":
            for k in range(-6, 7):
                yield dict(n=n, k=k)
        else:
            _, a, b, c = case.key.split(":")
            rng = [-6, -3, -1, 0, 1, 2, 5]
            for s in ([None] if a == "none" else rng):
                for e in ([None] if b == "none" else rng):
                    for st in ([None] if c == "none" else [-3, -1, 1, 2]):
                        d = dict(n=n)
                        if s is not None:
                            d["ystart"] = s
                        if e is not None:
                            d["ystop"] = e
                        if st is not None:
                            d["ystep"] = st
                        yield d


@harness("C13", cases=[dict(cls=c, key=k) for c in ("BoolArray1D", "IntArray1D") for k in AXIS_KINDS], native_inputs=_g1_inputs)
def getitem_1d(case):
    """1D arrays: a[k] is the list element (IndexError exactly when the list raises it); a[slice] holds exactly the
    elements the slice selects from the list, in order, in the same 1D class"""
    n = sint("n")
    requires(n >= 0)
    data = slist("d", "ref", n)
    arr = OBJ(A, case.cls, shape=(n,), data=data)
    key = sint("k") if case.key == "int" else _axis_key(case.key, "y")
    o = call(REAL(A, case.cls + ".__getitem__"), arr, key)
    if case.key == "int":
        valid = And(key >= 0 - n, key < n)
        if o.raised:
            check("raises-only-IndexError", o.exc == "IndexError")
            check("raises-only-when-list-does", Not(valid))
        else:
            check("returns-only-when-valid", valid)
            check("element", same(o.value, raw_item(data, pyslice.norm_index(key, n))))
        return
    check("no-exception", not o.raised)
    if o.raised:
        return
    r = o.value
    s0, e0, st0 = pyslice.indices(n, key.start, key.stop, key.step)
    cnt = pyslice.range_len(s0, e0, st0)
    check("class", isinst(r, A, case.cls))
    check("length", length(attr(r, "data")) == cnt)
    check("shape", attr(r, "shape")[0] == cnt)
    if CTX.mode == "sym":
        lemma("C13/lemma_slice_in_bounds", True)
    check("selected-elements-in-order", forall_range(cnt, lambda k: same(raw_item(attr(r, "data"), k), raw_item(data, s0 + k * st0))))


def _coord_inputs(case):
    for H in range(0, 3):
        for W in range(0, 3):
            for y in range(-3, 4):
                for x in range(-3, 4):
                    yield dict(H=H, W=W, y=y, x=x)


@harness("C13", cases=[dict(form=f) for f in ("pairs", "int-entry", "triple-entry", "str-entry")], native_inputs=_coord_inputs)
def getitem_coordinate_list(case):
    """a[[(y, x), ...]]: element-wise the (int, int) case, a 1D result in the order of the list; malformed
    entries raise TypeError"""
    H, W = sint("H"), sint("W")
    requires(And(H >= 0, W >= 0))
    data = slist("d", "ref", H * W)
    arr = OBJ(A, "Array2D", shape=(H, W), data=data)
    y, x = sint("y"), sint("x")
    valid = And(y >= 0 - H, y < H, x >= 0 - W, x < W)
    f = REAL(A, "Array2D._getitem_impl")
    if case.form != "pairs":
        bad = {"int-entry": 3, "triple-entry": (y, x, 0), "str-entry": ("a", x)}[case.form]
        o = call(f, arr, mklist([bad]))
        check("malformed-entry-raises-TypeError", o.exc == "TypeError")
        return
    if CTX.mode == "sym":
        # unbounded list of pairs: the loop body is verified for an arbitrary entry (y, x); the recursive
        # call is replaced by the contract of the (int, int) case (proved by getitem_2d[int,int])
        def impl(it, args, kwargs):
            self_, key = args
            ky, kx = key
            ok = And(ky >= 0 - H, ky < H, kx >= 0 - W, kx < W)
            if not ok:
                raise PyRaise(IndexError("index out of bounds"))
            return raw_item(data, pyslice.norm_index(ky, H) * W + pyslice.norm_index(kx, W))

        def pair():
            return (y, x)

        def on_append(ns, value):
            check("appended-element-is-the-addressed-one", same(value, raw_item(data, pyslice.norm_index(y, H) * W + pyslice.norm_index(x, W))))
            check("appended-only-for-valid-coordinates", valid)

        use_contract(GI, impl)
        watch("append", GI, "data", on_append)
        loop_spec(GI, 0, inv=lambda ns: [], modifies=["data"], types={"data": "list:ref"})
        o = call(f, arr, AbstractSeq(pair, "coords", length=sint("ncoords")))
        if o.raised:
            check("raises-only-IndexError", o.exc == "IndexError")
            check("raises-only-for-an-invalid-coordinate", Not(valid))
        else:
            check("result-is-1d", And(isinst(o.value, A, "Array1D"), not isinst(o.value, A, "Array2D")))
        return
    o = call(f, arr, mklist([(y, x), (y, x)]))
    if o.raised:
        check("raises-only-IndexError", o.exc == "IndexError")
        check("raises-only-for-an-invalid-coordinate", Not(valid))
    else:
        check("returns-only-for-valid-coordinates", valid)
        r = attr(o.value, "data")
        e = item(data, pyslice.norm_index(y, H) * W + pyslice.norm_index(x, W))
        check("elements-in-list-order", And(length(r) == 2, same(item(r, 0), e), same(item(r, 1), e)))
