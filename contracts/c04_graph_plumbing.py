"""C04-C10 — contracts on the graph plumbing of cspuz/graph.py (everything around the encoders that is integer
and list code): proved for all sizes.

  * Graph.add_edge keeps the representation invariant "incident_edges[v] lists exactly (other endpoint, edge id)
    of the edges at v, in order of insertion" (C04-C10: every encoder reads incident_edges);
  * _grid_graph(h, w): h*w vertices, cell (y, x) is vertex y*w + x, every edge joins a cell to its right or
    lower neighbour (soundness, append-site obligations) and every such pair is joined exactly once
    (completeness, per cell) — the documented auto-inferred graph (C04, C05, C07, C08);
  * native primitive operands of _active_vertices_connected and of the borders form of variable groups:
    [n, m, x_0..x_{n-1}, u_0, v_0, u_1, v_1, ...] (+ border flags), the layout the wire format of C03 expects;
    size mismatches are rejected with ValueError (C04, C07);
  * division_connected on a grid: roots (y, x) become vertex y*width + x, None stays None, an int is rejected
    with TypeError (C05);
  * active_vertices_not_adjacent, explicit-graph form: exactly one constraint not(x_u and x_v) per edge, in edge
    order, nothing else — with the operator meaning of C01/C12 this IS the first sentence of C08;
  * active_edges_connected_crossable: the auxiliary graph has 3 nodes per lattice point (plain, horizontal,
    vertical pass-through) followed by one node per vertical and per horizontal segment; a vertical segment is
    adjacent to the plain and the vertical halves of its two end points, a horizontal one to the plain and
    horizontal halves; the activity list is aligned with that numbering (C10).
Assumed: Python list/tuple/range semantics (pyvc host models); callee contracts named in each harness.
"""
import z3 as _z3

from pyvc.api import *
from pyvc.values import VList, HostFn, GhostVal, PointwiseSeq, AbstractSeq
from pyvc.sym import _zint

GR = "cspuz/graph.py"
EX = "cspuz/expr.py"
SOLV = "cspuz/solver.py"
I = _z3.IntSort()


# ------------------------------------------------------------------------------------------------ ghost views
class EdgeList(GhostVal):
    """graph.edges of symbolic length m: edge k = (U(k), V(k))"""
    pv_pytype = "list"

    def __init__(self, m, U, V, log=None):
        self.m, self.U, self.V, self.log = m, U, V, log

    def pv_len(self):
        return self.m

    def pv_getitem(self, k):
        if not isinstance(k, (int, SInt)):
            raise OutOfSubset("edge list subscript")
        if not bool((k >= 0) & (k < self.m) if not isinstance(k, int) else SBool(_z3.And(k >= 0, k < self.m.t))):
            raise PyRaise(IndexError("list index out of range"))
        return (SInt(self.U(_zint(k))), SInt(self.V(_zint(k))))

    def pv_iter(self):
        def one():
            k = fresh_int("edge")
            requires(And(k >= 0, k < self.m))
            return (SInt(self.U(k.t)), SInt(self.V(k.t)))
        return AbstractSeq(one, "edges", length=self.m)

    def pv_getattr(self, name):
        if name == "append" and self.log is not None:
            return HostFn(lambda it, a, k: self.log.append(("edges", a[0])), "edges.append", raw=True)
        raise OutOfSubset("edge list .%s" % name)


class IncRows(GhostVal):
    """graph.incident_edges: row v is only ever appended to here"""
    pv_pytype = "list"

    def __init__(self, n, log):
        self.n, self.log = n, log

    def pv_len(self):
        return self.n

    def pv_getitem(self, v):
        if not bool((v >= 0) & (v < self.n)):
            raise OutOfSubset("vertex id outside [0, n): Python would wrap a negative index / raise IndexError")
        return IncRow(self, v)


class IncRow(GhostVal):
    pv_pytype = "list"

    def __init__(self, rows, v):
        self.rows, self.v = rows, v

    def pv_getattr(self, name):
        if name == "append":
            return HostFn(lambda it, a, k: self.rows.log.append(("inc", self.v, a[0])), "row.append", raw=True)
        raise OutOfSubset("incident row .%s" % name)


def _eq_pair(p, a, b):
    return isinstance(p, tuple) and len(p) == 2 and And(p[0] == a, p[1] == b)


@harness("C04", cases=[dict(loop=False), dict(loop=True)])
def graph_add_edge(case):
    """representation invariant of Graph: one entry in edges, one in each end point's incident list (two in the
    same list for a self-loop), carrying the other end point and the new edge's id = previous number of edges"""
    if CTX.mode != "sym":
        return
    n, m = sint("n"), sint("m")
    requires(And(n >= 1, m >= 0))
    i = sint("i")
    j = i if case.loop else sint("j")
    requires(And(i >= 0, i < n, j >= 0, j < n))
    log = []
    g = OBJ(GR, "Graph", num_vertices=n, edges=EdgeList(m, _z3.Function("U", I, I), _z3.Function("V", I, I), log),
            incident_edges=IncRows(n, log))
    o = call(REAL(GR, "Graph.add_edge"), g, i, j)
    check("no-exception", not o.raised)
    if o.raised:
        return
    check("three-appends", len(log) == 3)
    if len(log) != 3:
        return
    e = [x for x in log if x[0] == "edges"]
    inc = [x for x in log if x[0] == "inc"]
    check("one-edge-recorded-as-(i,j)", len(e) == 1 and _eq_pair(e[0][1], i, j))
    check("two-incidence-entries", len(inc) == 2)
    if len(inc) == 2:
        a, b = inc
        ok_ab = And(a[1] == i, _eq_pair(a[2], j, m), b[1] == j, _eq_pair(b[2], i, m))
        ok_ba = And(b[1] == i, _eq_pair(b[2], j, m), a[1] == j, _eq_pair(a[2], i, m))
        check("each-end-point-lists-the-other-end-and-the-new-edge-id", Or(ok_ab, ok_ba))


# ------------------------------------------------------------------------------------------------ _grid_graph
GG = GR + "::_grid_graph"


def _hw_inputs(case):
    for h in range(0, 4):
        for w in range(0, 4):
            yield dict(h=h, w=w)


@harness("C04", native_inputs=_hw_inputs)
def grid_graph(case):
    """_grid_graph(h, w) is the documented grid graph: sound and complete, vertex (y, x) = y*w + x"""
    h, w = sint("h"), sint("w")
    requires(And(h >= 0, w >= 0))
    if CTX.mode == "sym":
        added = []
        mark = {}

        def add_edge(it, args, kwargs):
            g_, a, b = args
            added.append((a, b))
            return None

        use_contract(GR + "::Graph.add_edge", add_edge)

        def head(ns):
            mark["n"] = len(added)
            return None

        def end(ns, token):
            y, x = ns.y, ns.x
            new = added[mark["n"]:]
            cell = y * w + x
            exp = []
            if bool(x < w - 1):
                exp.append(cell + 1)
            if bool(y < h - 1):
                exp.append(cell + w)
            for (a, b) in new:
                check("edge-starts-at-the-current-cell", a == cell)
            check("one-edge-per-existing-right/lower-neighbour", len(new) == len(exp))
            if len(new) == len(exp):
                tg = [b for (a, b) in new]
                if len(exp) == 1:
                    check("joins-exactly-the-existing-neighbours", tg[0] == exp[0])
                elif len(exp) == 2:
                    check("joins-exactly-the-existing-neighbours", Or(And(tg[0] == exp[0], tg[1] == exp[1]), And(tg[0] == exp[1], tg[1] == exp[0])))
            check("end-points-are-cells-of-the-board", And(*[And(a >= 0, a < h * w, b >= 0, b < h * w) for (a, b) in new]) if new else True)

        loop_spec(GG, 0, inv=lambda ns: [ns.y >= 0], modifies=[], types={"x": "int"})
        loop_spec(GG, 1, inv=lambda ns: [ns.y >= 0, ns.y < h, ns.x >= 0], modifies=[], at_head=head, at_end=end)
    o = call(REAL(GR, "_grid_graph"), h, w)
    check("no-exception", not o.raised)
    if o.raised:
        return
    g = o.value
    check("vertex-count", attr(g, "num_vertices") == h * w)
    if CTX.mode == "native":
        edges = [tuple(sorted(e)) for e in attr(g, "edges")]
        want = sorted([(y * w + x, y * w + x + 1) for y in range(h) for x in range(w - 1)] + [(y * w + x, (y + 1) * w + x) for y in range(h - 1) for x in range(w)])
        check("edge-set-is-the-grid-adjacency", sorted(edges) == want)
        inc = attr(g, "incident_edges")
        ok = True
        for k, (a, b) in enumerate(attr(g, "edges")):
            ok = ok and (b, k) in inc[a] and (a, k) in inc[b]
        check("incident-lists-consistent-with-edges", ok and sum(len(r) for r in inc) == 2 * len(edges))


# ------------------------------------------------------------------------------------------------ primitive operands
def _capture_ensure(posted):
    def ensure(it, args, kwargs):
        posted.extend(args[1:])
        return None
    use_contract(SOLV + "::Solver.ensure", ensure)


def _graph_obj(n, m, tag="g"):
    U, V = _z3.Function("U_" + tag, I, I), _z3.Function("V_" + tag, I, I)
    return OBJ(GR, "Graph", num_vertices=n, edges=EdgeList(m, U, V), incident_edges=Opaque("incident_edges")), U, V


def _operand(ops, k):
    """operand number k of a constructed expression (operands may be an ordinary or a pointwise list)"""
    return interp().getitem(ops, k)


def _int_operand(ops, k):
    v = _operand(ops, k)
    return SInt(v.t) if isinstance(v, SRef) else v


@harness("C04", cases=[dict(sizes=s) for s in ("equal", "different")])
def primitive_operands_connected(case):
    """native route of active vertices connectivity: ValueError on a size mismatch, otherwise ONE constraint
    graph-active-vertices-connected(n, m, x_0..x_{n-1}, u_0, v_0, ..., u_{m-1}, v_{m-1})"""
    if CTX.mode != "sym":
        return
    n, m = sint("n"), sint("m")
    requires(And(n >= 0, m >= 0))
    la = n if case.sizes == "equal" else sint("len_is_active")
    requires(la >= 0)
    if case.sizes == "different":
        requires(la != n)
    k_ = _z3.Int("k!a")
    xs = VList(None, la.t, _z3.Lambda([k_], 7000000 + k_), "ref")
    g, U, V = _graph_obj(n, m)
    posted = []
    _capture_ensure(posted)
    solver = OBJ(SOLV, "Solver", variables=mklist([]), is_answer_key=mklist([]), constraints=mklist([]))
    o = call(REAL(GR, "_active_vertices_connected"), solver, xs, g, False, True)
    if case.sizes == "different":
        check("size-mismatch-rejected-with-ValueError", o.exc == "ValueError")
        check("nothing-posted", len(posted) == 0)
        return
    check("no-exception", not o.raised)
    if o.raised:
        return
    check("exactly-one-constraint", len(posted) == 1)
    if len(posted) != 1:
        return
    e = posted[0]
    Op = CLS(EX, "Op")
    check("native-connectivity-operator", attr(e, "op") is attr(Op, "GRAPH_ACTIVE_VERTICES_CONNECTED"))
    ops = attr(e, "operands")
    check("operand-count", length(ops) == 2 + n + 2 * m)
    check("first-operand-is-the-vertex-count", _int_operand(ops, 0) == n)
    check("second-operand-is-the-edge-count", _int_operand(ops, 1) == m)
    k = fresh_int("k")
    requires(And(k >= 0, k < n))
    check("then-the-activity-of-vertex-k", same(_operand(ops, 2 + k), SRef(_z3.IntVal(7000000) + k.t)))
    q = fresh_int("q")
    requires(And(q >= 0, q < m))
    check("then-edge-q-first-end", _int_operand(ops, 2 + n + 2 * q) == SInt(U(q.t)))
    check("then-edge-q-second-end", _int_operand(ops, 2 + n + 2 * q + 1) == SInt(V(q.t)))


@harness("C07", cases=[dict(sizes=s) for s in ("equal", "group-size-mismatch", "border-mismatch")])
def primitive_operands_division(case):
    """native route of variable groups with borders: ValueError on size mismatches, otherwise ONE constraint
    graph-division(n, m, size_0..size_{n-1}, u_0, v_0, ..., is_border_0..is_border_{m-1})"""
    if CTX.mode != "sym":
        return
    n, m = sint("n"), sint("m")
    requires(And(n >= 0, m >= 0))
    lg = sint("len_group_size") if case.sizes == "group-size-mismatch" else n
    lb = sint("len_is_border") if case.sizes == "border-mismatch" else m
    requires(And(lg >= 0, lb >= 0))
    if case.sizes == "group-size-mismatch":
        requires(lg != n)
    if case.sizes == "border-mismatch":
        requires(lb != m)
    k_ = _z3.Int("k!a")
    sizes = VList(None, lg.t, _z3.Lambda([k_], 7000000 + k_), "ref")
    borders = VList(None, lb.t, _z3.Lambda([k_], 8000000 + k_), "ref")
    g, U, V = _graph_obj(n, m)
    posted = []
    _capture_ensure(posted)
    solver = OBJ(SOLV, "Solver", variables=mklist([]), is_answer_key=mklist([]), constraints=mklist([]))
    o = call(REAL(GR, "_division_connected_variable_groups_with_borders"), solver, g, sizes, borders, True)
    if case.sizes != "equal":
        check("size-mismatch-rejected-with-ValueError", o.exc == "ValueError")
        check("nothing-posted", len(posted) == 0)
        return
    check("no-exception", not o.raised)
    if o.raised:
        return
    check("exactly-one-constraint", len(posted) == 1)
    if len(posted) != 1:
        return
    e = posted[0]
    Op = CLS(EX, "Op")
    check("native-division-operator", attr(e, "op") is attr(Op, "GRAPH_DIVISION"))
    ops = attr(e, "operands")
    check("operand-count", length(ops) == 2 + n + 3 * m)
    check("first-operand-is-the-vertex-count", _int_operand(ops, 0) == n)
    check("second-operand-is-the-edge-count", _int_operand(ops, 1) == m)
    k = fresh_int("k")
    requires(And(k >= 0, k < n))
    check("then-the-size-of-vertex-k", same(_operand(ops, 2 + k), SRef(_z3.IntVal(7000000) + k.t)))
    q = fresh_int("q")
    requires(And(q >= 0, q < m))
    check("then-edge-q-first-end", _int_operand(ops, 2 + n + 2 * q) == SInt(U(q.t)))
    check("then-edge-q-second-end", _int_operand(ops, 2 + n + 2 * q + 1) == SInt(V(q.t)))
    check("then-the-border-flag-of-edge-q", same(_operand(ops, 2 + n + 2 * m + q), SRef(_z3.IntVal(8000000) + q.t)))


# ------------------------------------------------------------------------------------------------ not adjacent (graph form)
class GhostAnd(GhostVal):
    """the expression a & b: ghost record of its meaning (operator contracts of C01/C12)"""

    def __init__(self, a, b):
        self.a, self.b = a, b

    def pv_unop(self, opname):
        if opname == "Invert":
            return GhostNotAnd(self.a, self.b)
        self._no("unary " + opname)


class GhostNotAnd(GhostVal):
    """the expression ~(a & b)"""

    def __init__(self, a, b):
        self.a, self.b = a, b


@harness("C08")
def not_adjacent_graph_form(case):
    """explicit-graph form: for every edge (u, v) exactly the constraint not(x_u and x_v), nothing else"""
    if CTX.mode != "sym":
        return
    n, m = sint("n"), sint("m")
    requires(And(n >= 0, m >= 0))
    k_ = _z3.Int("k!a")
    xs = VList(None, n.t, _z3.Lambda([k_], 7000000 + k_), "ref")
    g, U, V = _graph_obj(n, m)
    q0 = _z3.Int("q!ends")
    CTX.assume(_z3.ForAll([q0], _z3.Implies(_z3.And(q0 >= 0, q0 < m.t), _z3.And(U(q0) >= 0, U(q0) < n.t, V(q0) >= 0, V(q0) < n.t))))
    posted = []
    _capture_ensure(posted)

    def binop(op, a, b):
        if op == "BitAnd" and isinstance(a, SRef) and isinstance(b, SRef):
            return GhostAnd(a, b)
        return NotImplemented

    ghost("sref_binop", binop)
    solver = OBJ(SOLV, "Solver", variables=mklist([]), is_answer_key=mklist([]), constraints=mklist([]))
    mark = {}

    def head(ns):
        mark["n"] = len(posted)
        return None

    def end(ns, token):
        new = posted[mark["n"]:]
        check("one-constraint-per-edge", len(new) == 1)
        if len(new) != 1:
            return
        c = new[0]
        check("constraint-is-not-both", isinstance(c, GhostNotAnd))
        if isinstance(c, GhostNotAnd):
            i, j = ns.i, ns.j
            ends = Or(And(same(c.a, SRef(_z3.IntVal(7000000) + _zint(i))), same(c.b, SRef(_z3.IntVal(7000000) + _zint(j)))),
                      And(same(c.a, SRef(_z3.IntVal(7000000) + _zint(j))), same(c.b, SRef(_z3.IntVal(7000000) + _zint(i)))))
            check("about-the-two-end-points-of-this-edge", ends)

    loop_spec(GR + "::active_vertices_not_adjacent", 0, inv=lambda ns: [], modifies=[], types={"i": "int", "j": "int"}, at_head=head, at_end=end)
    o = call(REAL(GR, "active_vertices_not_adjacent"), solver, xs, g)
    check("no-exception", not o.raised)


# ------------------------------------------------------------------------------------------------ roots conversion
DC = GR + "::division_connected"


@harness("C05", cases=[dict(root=r) for r in ("none", "pair", "int")])
def roots_conversion(case):
    """grid form of division_connected: the root (y, x) of region k is handed on as vertex y*width + x at the same
    position k; None stays None; an int root is rejected with TypeError; the grid graph is the inferred one"""
    if CTX.mode != "sym":
        return
    h, w = sint("h"), sint("w")
    requires(And(h >= 1, w >= 1))
    y, x = sint("y"), sint("x")
    got = {}

    def worker(it, args, kwargs):
        got["args"] = args
        got["kwargs"] = kwargs
        return None

    def grid_graph_c(it, args, kwargs):
        got["grid"] = args
        return Opaque("grid-graph")

    use_contract(GR + "::_division_connected", worker)
    use_contract(GR + "::_grid_graph", grid_graph_c)
    AR = "cspuz/array.py"
    data = VList.symbolic("cells", "ref", h * w)
    division = OBJ(AR, "IntArray2D", data=data, shape=(h, w))
    use_contract(AR + "::IntArray2D.flatten", lambda it, a, k: Opaque("flattened"))
    use_contract(AR + "::Array2D.flatten", lambda it, a, k: Opaque("flattened"))
    first = {"none": None, "pair": (y, x), "int": y}[case.root]
    roots = mklist([first, None, (sint("y2"), sint("x2"))])
    solver = OBJ(SOLV, "Solver", variables=mklist([]), is_answer_key=mklist([]), constraints=mklist([]))
    o = call(REAL(GR, "division_connected"), solver, division, 3, None, roots=roots, allow_empty_group=False)
    if case.root == "int":
        check("int-root-on-a-grid-rejected-with-TypeError", o.exc == "TypeError")
        check("nothing-handed-on", "args" not in got)
        return
    check("no-exception", not o.raised)
    if o.raised or "args" not in got:
        check("worker-called", False)
        return
    check("grid-graph-of-the-arrays-shape", len(got.get("grid", [])) == 2 and And(got["grid"][0] == h, got["grid"][1] == w))
    rc = got["kwargs"].get("roots")
    check("roots-handed-on-as-a-list-of-the-same-length", is_list(rc) and length(rc) == 3)
    if is_list(rc) and length(rc) == 3:
        r0, r1, r2 = item(rc, 0), item(rc, 1), item(rc, 2)
        if case.root == "none":
            check("None-stays-None", r0 is None)
        else:
            check("root-(y,x)-becomes-vertex-y*width+x", r0 == y * w + x)
        check("second-root-None-stays-None", r1 is None)
    check("region-count-and-flag-passed-through", And(got["args"][2] == 3, got["kwargs"].get("allow_empty_group") is False))


# ------------------------------------------------------------------------------------------------ crossable auxiliary graph
CR = GR + "::active_edges_connected_crossable"
_MISSING_FLAG = object()


@harness("C10", structural=True, cases=[dict(route=r) for r in ("auxiliary", "any")])
def crossable_aux_graph(case):
    """auxiliary graph of the crossable constraint: node numbering, adjacency and the aligned activity list"""
    if CTX.mode != "sym":
        return
    fh, fw = sint("frame_h"), sint("frame_w")
    requires(And(fh >= 0, fw >= 0))
    H, W = fh + 1, fw + 1            # lattice points
    added, gv_log, handed = [], [], {}

    class Elem(GhostVal):
        """element (y, x) of one of the arrays; operators on it build expressions the harness does not look into"""
        def __init__(self, tag, y=None, x=None):
            self.tag, self.y, self.x = tag, y, x

        def pv_unop(self, opname):
            return Elem("expr")

        def pv_binop(self, op, other, reflected):
            return Elem("expr")

        def pv_getattr(self, name):
            if name in ("then", "cond"):
                return HostFn(lambda it, a, k: Elem("expr"), name, raw=True)
            raise OutOfSubset("element .%s" % name)

    class Arr2(GhostVal):
        """a 2D bool array seen through [y, x] only"""
        def __init__(self, tag, rows, cols):
            self.tag, self.rows, self.cols = tag, rows, cols

        def pv_getitem(self, key):
            yy, xx = key
            if not bool((yy >= 0) & (yy < self.rows) & (xx >= 0) & (xx < self.cols)):
                raise PyRaise(IndexError("index out of range"))
            return Elem(self.tag, yy, xx)

        def pv_getattr(self, name):
            if name == "then":
                return HostFn(lambda it, a, k: Arr2("expr", self.rows, self.cols), "then", raw=True)
            raise OutOfSubset("array .%s" % name)

        def pv_unop(self, opname):
            return Arr2("expr", self.rows, self.cols)

        def pv_binop(self, op, other, reflected):
            return Arr2("expr", self.rows, self.cols)

    arrays = []

    def bool_array(it, args, kwargs):
        shape = args[1]
        a = Arr2("arr%d" % len(arrays), shape[0], shape[1])
        arrays.append(a)
        return a

    use_contract(SOLV + "::Solver.bool_array", bool_array)
    use_contract(SOLV + "::Solver.ensure", lambda it, a, k: None)
    use_contract(GR + "::Graph.add_edge", lambda it, a, k: added.append((a[1], a[2])))

    def avc(it, args, kwargs):
        handed["calls"] = handed.get("calls", 0) + 1
        handed["gv"] = args[1]
        handed["graph"] = kwargs.get("graph")
        handed["flag"] = kwargs.get("use_graph_primitive", _MISSING_FLAG)
        return None

    use_contract(GR + "::active_vertices_connected", avc)
    GF = "cspuz/grid_frame.py"
    vert, horiz = Arr2("vertical", fh, fw + 1), Arr2("horizontal", fh + 1, fw)
    frame = OBJ(GF, "BoolGridFrame", height=fh, width=fw, horizontal=horiz, vertical=vert, solver=Opaque("s"))
    use_contract(GF + "::BoolGridFrame.vertex_neighbors", lambda it, a, k: Opaque("neighbours"))
    use_contract("cspuz/constraints.py::count_true", lambda it, a, k: Opaque("count"))
    watch("append", CR, "gv", lambda ns, v: gv_log.append(v))
    solver = OBJ(SOLV, "Solver", variables=mklist([]), is_answer_key=mklist([]), constraints=mklist([]))
    mark = {}

    def head(ns):
        mark["gv"], mark["e"] = len(gv_log), len(added)
        return None

    # loops of the function in source order: 0/1 degree rules (y, x); 2/3 point nodes; 4/5 vertical segment activity;
    # 6/7 horizontal segment activity; 8/9 vertical segment adjacency; 10/11 horizontal segment adjacency
    def end_points(ns, token):
        new = gv_log[mark["gv"]:]
        check("three-activity-entries-per-lattice-point", len(new) == 3)
        check("entry-count-before-this-point", length(ns.gv) - 3 == (ns.y * W + ns.x) * 3)
        if len(new) == 3:
            single, dh, dv = arrays[2], arrays[3], arrays[4]
            for k, arr in enumerate((single, dh, dv)):
                v = new[k]
                check("point-node-%d-is-its-own-array-at-(y,x)" % k, isinstance(v, Elem) and v.tag == arr.tag and And(v.y == ns.y, v.x == ns.x))

    def end_vact(ns, token):
        new = gv_log[mark["gv"]:]
        check("one-activity-entry-per-vertical-segment", len(new) == 1)
        check("entry-position-of-the-vertical-segment", length(ns.gv) - 1 == H * W * 3 + ns.y * W + ns.x)
        if len(new) == 1:
            v = new[0]
            check("vertical-segment-(y,x)", isinstance(v, Elem) and v.tag == "vertical" and And(v.y == ns.y, v.x == ns.x))

    def end_hact(ns, token):
        new = gv_log[mark["gv"]:]
        check("one-activity-entry-per-horizontal-segment", len(new) == 1)
        check("entry-position-of-the-horizontal-segment", length(ns.gv) - 1 == H * W * 3 + (H - 1) * W + ns.y * (W - 1) + ns.x)
        if len(new) == 1:
            v = new[0]
            check("horizontal-segment-(y,x)", isinstance(v, Elem) and v.tag == "horizontal" and And(v.y == ns.y, v.x == ns.x))

    def end_vadj(ns, token):
        new = added[mark["e"]:]
        eid = H * W * 3 + ns.y * W + ns.x
        p0, p1 = (ns.y * W + ns.x) * 3, ((ns.y + 1) * W + ns.x) * 3
        check("four-adjacencies-per-vertical-segment", len(new) == 4)
        if len(new) == 4:
            check("all-from-the-segments-own-node", And(*[a == eid for a, b in new]))
            others = [b for a, b in new]
            for want, nm in ((p0, "upper-point-plain"), (p0 + 2, "upper-point-vertical-half"), (p1, "lower-point-plain"), (p1 + 2, "lower-point-vertical-half")):
                check("adjacent-to-" + nm, Or(*[b == want for b in others]))

    def end_hadj(ns, token):
        new = added[mark["e"]:]
        eid = H * W * 3 + (H - 1) * W + ns.y * (W - 1) + ns.x
        p0, p1 = (ns.y * W + ns.x) * 3, (ns.y * W + ns.x + 1) * 3
        check("four-adjacencies-per-horizontal-segment", len(new) == 4)
        if len(new) == 4:
            check("all-from-the-segments-own-node", And(*[a == eid for a, b in new]))
            others = [b for a, b in new]
            for want, nm in ((p0, "left-point-plain"), (p0 + 1, "left-point-horizontal-half"), (p1, "right-point-plain"), (p1 + 1, "right-point-horizontal-half")):
                check("adjacent-to-" + nm, Or(*[b == want for b in others]))

    T = {"gv": "list:ref", "x": "int"}
    loop_spec(CR, 0, inv=lambda ns: [], modifies=[], types={"x": "int", "d": "opaque"})
    loop_spec(CR, 1, inv=lambda ns: [], modifies=[], types={"d": "opaque"})
    loop_spec(CR, 2, inv=lambda ns: [length(ns.gv) == ns.y * W * 3, ns.y >= 0], modifies=["gv"], types=T)
    loop_spec(CR, 3, inv=lambda ns: [length(ns.gv) == (ns.y * W + ns.x) * 3, ns.y >= 0, ns.y < H], modifies=["gv"], types=T, at_head=head, at_end=end_points)
    loop_spec(CR, 4, inv=lambda ns: [length(ns.gv) == H * W * 3 + ns.y * W, ns.y >= 0], modifies=["gv"], types=T)
    loop_spec(CR, 5, inv=lambda ns: [length(ns.gv) == H * W * 3 + ns.y * W + ns.x, ns.y >= 0, ns.y < H - 1], modifies=["gv"], types=T, at_head=head, at_end=end_vact)
    loop_spec(CR, 6, inv=lambda ns: [length(ns.gv) == H * W * 3 + (H - 1) * W + ns.y * (W - 1), ns.y >= 0], modifies=["gv"], types=T)
    loop_spec(CR, 7, inv=lambda ns: [length(ns.gv) == H * W * 3 + (H - 1) * W + ns.y * (W - 1) + ns.x, ns.y >= 0, ns.y < H], modifies=["gv"], types=T, at_head=head, at_end=end_hact)
    loop_spec(CR, 8, inv=lambda ns: [ns.y >= 0], modifies=[], types={"x": "int", "eid": "int", "v0": "int", "v1": "int"})
    loop_spec(CR, 9, inv=lambda ns: [ns.y >= 0, ns.y < H - 1], modifies=[], types={"eid": "int", "v0": "int", "v1": "int"}, at_head=head, at_end=end_vadj)
    loop_spec(CR, 10, inv=lambda ns: [ns.y >= 0], modifies=[], types={"x": "int", "eid": "int", "v0": "int", "v1": "int"})
    loop_spec(CR, 11, inv=lambda ns: [ns.y >= 0, ns.y < H], modifies=[], types={"eid": "int", "v0": "int", "v1": "int"}, at_head=head, at_end=end_hadj)
    # case "any": whichever encoding of connectivity is asked for (None / True / False) and for paths and cycles alike, the
    # SAME auxiliary graph is built and handed to active_vertices_connected together with the caller's flag
    if case.route == "any":
        flag = Opaque("use_graph_primitive as given by the caller")
        o = call(REAL(GR, "active_edges_connected_crossable"), solver, frame, single_cycle=sbool("single_cycle"), use_graph_primitive=flag)
    else:
        flag = False
        o = call(REAL(GR, "active_edges_connected_crossable"), solver, frame, single_cycle=False, use_graph_primitive=False)
    check("no-exception", not o.raised)
    if o.raised:
        return
    check("connectivity-is-posted-on-the-auxiliary-graph", "gv" in handed and handed.get("graph") is not None)
    check("connectivity-is-asked-for-once,-with-the-caller's-flag", handed.get("calls") == 1 and handed.get("flag") is flag)
    if "gv" in handed:
        g = handed["graph"]
        nodes = H * W * 3 + (H - 1) * W + H * (W - 1)
        check("node-count", attr(g, "num_vertices") == nodes)
        check("one-activity-entry-per-node", length(handed["gv"]) == nodes)
    r = o.value
    check("returns-(is_passed, is_cross)", isinstance(r, tuple) and len(r) == 2 and r[0] is arrays[0] and r[1] is arrays[1])


# ------------------------------------------------------------------------------------------------ Graph.line_graph
LG = GR + "::Graph.line_graph"


class IncView(GhostVal):
    """incident_edges of a graph with n vertices: row v has LEN(v) entries (NB(v, k), IE(v, k)); representation
    invariant (kept by add_edge, see graph_add_edge): IE(v, k) is the id of an existing edge"""
    pv_pytype = "list"

    def __init__(self, n, m, LEN, NB, IE):
        self.n, self.m, self.LEN, self.NB, self.IE = n, m, LEN, NB, IE

    def pv_len(self):
        return self.n

    def pv_getitem(self, v):
        if not bool((v >= 0) & (v < self.n)):
            raise PyRaise(IndexError("list index out of range"))
        assume_fact(mk_bool(self.LEN(_zint(v)) >= 0))
        return IncRowView(self, v)


class IncRowView(GhostVal):
    pv_pytype = "list"

    def __init__(self, inc, v):
        self.inc, self.v = inc, v

    def pv_len(self):
        return SInt(self.inc.LEN(_zint(self.v)))

    def pv_getitem(self, k):
        if not bool((k >= 0) & (k < self.pv_len())):
            raise PyRaise(IndexError("list index out of range"))
        e = self.inc.IE(_zint(self.v), _zint(k))
        assume_fact(mk_bool(_z3.And(e >= 0, e < self.inc.m.t)))
        return (SInt(self.inc.NB(_zint(self.v), _zint(k))), SInt(e))


class SharedVertexPairs(GhostVal):
    """the set built by line_graph: every member was added for some vertex v and two positions j < i of its incident
    list, as the ordered pair of the two edge ids"""
    pv_pytype = "set"

    def __init__(self, inc):
        self.inc = inc

    def pair_of(self, v, i, j):
        a, b = SInt(self.inc.IE(_zint(v), _zint(i))), SInt(self.inc.IE(_zint(v), _zint(j)))
        return ite(a < b, a, b), ite(a < b, b, a)

    def pv_getattr(self, name):
        if name == "add":
            return HostFn(lambda it, a, k: None, "set.add", raw=True)
        self._no("set." + name)

    def pv_iter(self):
        def one():
            v, i, j = fresh_int("lv"), fresh_int("li"), fresh_int("lj")
            inc = self.inc
            requires(And(v >= 0, v < inc.n, j >= 0, j < i, i < SInt(inc.LEN(v.t))))
            assume_fact(mk_bool(_z3.And(inc.IE(v.t, i.t) >= 0, inc.IE(v.t, i.t) < inc.m.t, inc.IE(v.t, j.t) >= 0, inc.IE(v.t, j.t) < inc.m.t)))
            x, y = self.pair_of(v, i, j)
            self.last = (v, i, j, x, y)
            return (x, y)
        return AbstractSeq(one, "pairs of edges sharing a vertex")


@harness("C06")
def line_graph(case):
    """Graph.line_graph(): one vertex per edge of the original graph; an edge between the ids of every two entries of
    every vertex's incident list (each such pair is entered: completeness; nothing else is: soundness)"""
    if CTX.mode != "sym":
        return
    n, m = sint("n"), sint("m")
    requires(And(n >= 0, m >= 0))
    LEN, NB, IE = _z3.Function("LEN", I, I), _z3.Function("NB", I, I, I), _z3.Function("IE", I, I, I)
    inc = IncView(n, m, LEN, NB, IE)
    g = OBJ(GR, "Graph", num_vertices=n, edges=EdgeList(m, _z3.Function("U", I, I), _z3.Function("V", I, I)), incident_edges=inc)
    pairs = SharedVertexPairs(inc)
    adds, joined = [], []
    mark = {}

    # completeness by loop invariant: for an ARBITRARY vertex v0 and positions j0 < i0 of its incident list the ghost
    # flag `hit` records whether that pair has been entered; hit <=> the loops have passed (v0, i0, j0)
    v0, i0, j0 = sint("v0"), sint("i0"), sint("j0")
    requires(And(v0 >= 0, v0 < n, j0 >= 0, j0 < i0, i0 < SInt(LEN(v0.t))))
    G = {"hit": _z3.BoolVal(False)}

    def havoc_hit():
        G["hit"] = _z3.Bool(CTX.fresh_name("hit"))

    def passed(v, i=None, j=None):
        t = v0 < v
        if i is not None:
            inner = i0 < i
            if j is not None:
                inner = Or(inner, And(i0 == i, j0 < j))
            t = Or(t, And(v0 == v, inner))
        return mk_bool(G["hit"]) == t

    def on_add(ns, value):
        adds.append(value)
        x, y = pairs.pair_of(ns.v, ns.i, ns.j)
        check("entered-pair-is-the-ordered-pair-of-the-two-edge-ids", isinstance(value, tuple) and len(value) == 2 and And(value[0] == x, value[1] == y))
        G["hit"] = _z3.Or(G["hit"], And(ns.v == v0, ns.i == i0, ns.j == j0).t)

    watch("add", LG, "edges", on_add)

    def head2(ns):
        mark["a"] = len(adds)
        return None

    def end2(ns, token):
        check("every-two-entries-of-an-incident-list-are-entered-once", len(adds) - mark["a"] == 1)

    def add_edge(it, args, kwargs):
        joined.append((args[1], args[2]))
        check("line-graph-edge-joins-existing-edge-ids", And(args[1] >= 0, args[1] < m, args[2] >= 0, args[2] < m))

    use_contract(GR + "::Graph.add_edge", add_edge)

    def head3(ns):
        mark["j"] = len(joined)
        return None

    def end3(ns, token):
        new = joined[mark["j"]:]
        v, i, j, x, y = pairs.last
        check("every-member-becomes-exactly-one-edge", len(new) == 1)
        if len(new) == 1:
            check("between-the-two-edge-ids-of-the-member", And(new[0][0] == x, new[0][1] == y))

    T = {"edges": lambda: pairs, "x": "int", "y": "int", "i": "int", "j": "int"}
    loop_spec(LG, 0, inv=lambda ns: [ns.v >= 0, passed(ns.v)], modifies=["edges"], types=dict(T), ghost_havoc=havoc_hit)
    loop_spec(LG, 1, inv=lambda ns: [ns.v >= 0, ns.v < n, ns.i >= 0, passed(ns.v, ns.i)], modifies=["edges"], types=dict(T), ghost_havoc=havoc_hit)
    loop_spec(LG, 2, inv=lambda ns: [ns.v >= 0, ns.v < n, ns.i >= 0, ns.i < SInt(LEN(_zint(ns.v))), ns.j >= 0, passed(ns.v, ns.i, ns.j)], modifies=["edges"], types=dict(T),
              ghost_havoc=havoc_hit, at_head=head2, at_end=end2)
    loop_spec(LG, 3, inv=lambda ns: [], modifies=[], types={"x": "int", "y": "int"}, at_head=head3, at_end=end3)
    o = call(REAL(GR, "Graph.line_graph"), g)
    check("no-exception", not o.raised)
    if o.raised:
        return
    check("one-vertex-per-original-edge", attr(o.value, "num_vertices") == m)
    check("the-arbitrary-pair-of-incident-entries-was-entered", mk_bool(G["hit"]))


# ------------------------------------------------------------------------------------------------ reductions
class Expr(GhostVal):
    """an expression / array the harness does not look into, tagged so that it can be recognised again"""

    def __init__(self, tag, parts=()):
        self.tag, self.parts = tag, parts

    def pv_unop(self, opname):
        return Expr("unop:" + opname, (self,))

    def pv_binop(self, op, other, reflected):
        return Expr("binop:" + op, (other, self) if reflected else (self, other))

    def pv_compare(self, opname, other, reflected):
        return Expr("cmp:" + opname, (other, self) if reflected else (self, other))

    def pv_getattr(self, name):
        if name == "data":
            return Expr("data", (self,))
        if name in ("then", "cond"):
            return HostFn(lambda it, a, k: Expr(name, (self,) + tuple(a)), name, raw=True)
        raise OutOfSubset("expression .%s" % name)


@harness("C08")
def not_segmenting_graph_form_is_a_reduction(case):
    """explicit-graph form of active_vertices_not_adjacent_and_not_segmenting = not_adjacent(x, G) and
    connected(~x, G): the second sentence of C08 (graph form) reduces to C08's first sentence and to C04"""
    if CTX.mode != "sym":
        return
    log = []
    x = Expr("is_active")
    g = Opaque("graph")
    use_contract(GR + "::active_vertices_not_adjacent", lambda it, a, k: log.append(("not_adjacent", a, k)))
    use_contract(GR + "::active_vertices_connected", lambda it, a, k: log.append(("connected", a, k)))
    solver = Opaque("solver")
    o = call(REAL(GR, "active_vertices_not_adjacent_and_not_segmenting"), solver, x, g)
    check("no-exception", not o.raised)
    if o.raised:
        return
    na = [e for e in log if e[0] == "not_adjacent"]
    co = [e for e in log if e[0] == "connected"]
    check("exactly-these-two-constraints", len(log) == 2 and len(na) == 1 and len(co) == 1)
    if len(na) == 1 and len(co) == 1:
        check("not-adjacent-on-the-same-activity-and-graph", na[0][1][0] is solver and na[0][1][1] is x and na[0][1][2] is g)
        c = co[0][1]
        neg = c[1]
        check("connectivity-of-the-complement-on-the-same-graph",
              c[0] is solver and isinstance(neg, Expr) and neg.tag == "unop:Invert" and neg.parts[0] is x and (c[2] is g if len(c) > 2 else co[0][2].get("graph") is g))
        check("plain-connectivity-not-the-tree-variant", not co[0][2].get("acyclic", False))


@harness("C05", cases=[dict(allow_empty=a, roots=r) for a in (False, True) for r in (False, True)])
def division_primitive_is_a_reduction(case):
    """native route of division_connected: for EVERY label i < num_regions one indicator array that equals
    (division == i), constrained connected by the native connectivity operator, non-empty unless allow_empty_group;
    a given root r of label i is constrained to carry i — C05 (native route) reduces to C04 (native route)"""
    if CTX.mode != "sym":
        return
    n, m, R = sint("n"), sint("m"), sint("num_regions")
    requires(And(n >= 0, m >= 0, R >= 0))
    g, U, V = _graph_obj(n, m)
    log = []
    AR = "cspuz/array.py"

    division = OBJ(AR, "IntArray1D", data=Opaque("division data"))
    use_contract(AR + "::IntArray1D.__eq__", lambda it, a, k: Expr("division==", (a[1],)))
    use_contract(AR + "::IntArray1D.__getitem__", lambda it, a, k: Expr("division_at", (a[1],)))
    regions = []

    def bool_array(it, a, k):
        r = Expr("region%d" % len(regions), (a[1],))
        regions.append(r)
        return r

    use_contract(SOLV + "::Solver.bool_array", bool_array)
    use_contract(SOLV + "::Solver.ensure", lambda it, a, k: log.append(("ensure", a[1:])))
    use_contract(GR + "::_active_vertices_connected", lambda it, a, k: log.append(("connected", a, k)))
    use_contract("cspuz/constraints.py::count_true", lambda it, a, k: Expr("count_true", tuple(a)))
    solver = OBJ(SOLV, "Solver", variables=mklist([]), is_answer_key=mklist([]), constraints=mklist([]))
    mark = {}

    def head(ns):
        mark["n"], mark["r"] = len(log), len(regions)
        return None

    def end(ns, token):
        new = log[mark["n"]:]
        check("one-fresh-indicator-array-of-n-flags-per-label", len(regions) - mark["r"] == 1 and regions[-1].parts[0] == n)
        if len(regions) - mark["r"] != 1:
            return
        reg = regions[-1]
        ens = [e for e in new if e[0] == "ensure"]
        con = [e for e in new if e[0] == "connected"]
        check("indicator-array-is-posted-connected-natively-on-this-graph",
              len(con) == 1 and isinstance(con[0][1][1], Expr) and con[0][1][1].tag == "data" and con[0][1][1].parts[0] is reg and con[0][1][2] is g
              and con[0][2].get("use_graph_primitive") is True)
        # region == (division == i): the comparison of two ghost values is evaluated by the interpreter as Python `==`;
        # the harness recognises the constraint by its operands
        check("constraints-per-label", len(ens) == (1 if case.allow_empty else 2))
        if ens:
            eq = ens[0][1][0]
            ok = isinstance(eq, Expr) and eq.tag == "cmp:Eq" and eq.parts[0] is reg and isinstance(eq.parts[1], Expr) and eq.parts[1].tag == "division=="
            check("indicator-array-equals-(division == label)", ok and eq.parts[1].parts[0] == ns.i)
        if not case.allow_empty and len(ens) == 2:
            ne = ens[1][1][0]
            check("non-empty-label-class", isinstance(ne, Expr) and ne.tag == "cmp:GtE" and ne.parts[0].tag == "count_true" and ne.parts[0].parts[0] is reg and ne.parts[1] == 1)

    loop_spec(GR + "::_division_connected", 0, inv=lambda ns: [], modifies=[], types={"region": "opaque"}, at_head=head, at_end=end)
    r0 = sint("root0")
    roots = mklist([r0, None]) if case.roots else None
    n_before = len(log)
    o = call(REAL(GR, "_division_connected"), solver, division, R, g, roots=roots, allow_empty_group=case.allow_empty, use_graph_primitive=True)
    check("no-exception", not o.raised)
    if o.raised:
        return
    if case.roots:
        # on the loop-exit path the log holds only what was posted after the label loop
        tail = [e for e in log if e[0] == "ensure"][-1:] if log else []
        ok = len(tail) == 1 and isinstance(tail[0][1][0], Expr) and tail[0][1][0].tag == "cmp:Eq"
        check("the-given-root-of-label-0-is-constrained", ok)
        if ok:
            c = tail[0][1][0]
            check("root-vertex-carries-its-label", isinstance(c.parts[0], Expr) and c.parts[0].tag == "division_at" and c.parts[0].parts[0] == r0 and c.parts[1] == 0)
