"""C17 — exception safety of the library decoders, proved for ALL strings and all offsets.

Abstract method contract used modularly for every sub-combinator:
    Combinator.deserialize(env, data, idx)   requires 0 <= idx <= len(data), env.height, env.width >= 0
        ensures  result is None  or  result == (n, items) with 0 <= n, idx + n <= len(data), items a list
        raises   only ValueError
Every concrete deserialize is proved against it (strings are SMT strings; ord() is str.to_code;
int(s, b), str.isdigit are uninterpreted: the only fact used about them is that int() may raise
ValueError, which is an allowed outcome)."""
from pyvc.api import *

PS = "cspuz/problem_serializer.py"
ABS = PS + "::Combinator.deserialize"


def _setup():
    data = sstr("data")
    idx = sint("idx")
    requires(And(idx >= 0, idx <= length(data)))
    h, w = sint("height"), sint("width")
    requires(And(h >= 0, w >= 0))
    env = OBJ(PS, "CombinatorEnv", height=h, width=w)
    return env, data, idx


def _well_formed(o, data, idx, name=""):
    """the contract's postcondition"""
    if o.raised:
        check(name + "raises-only-ValueError", o.exc == "ValueError")
        return None
    r = o.value
    if r is None:
        return None
    check(name + "result-is-a-pair", isinstance(r, tuple) and len(r) == 2)
    n, items = r
    check(name + "consumed-count-nonnegative", n >= 0)
    check(name + "consumed-text-inside-the-input", idx + n <= length(data))
    check(name + "items-is-a-list", is_list(items))
    return n, items


def abstract_contract(log=None, one_item=False, exact_items=None):
    """the abstract method contract (result chosen by the solver)"""
    def c(it, args, kwargs):
        self_, env, data, idx = args
        check("pre:sub-combinator:offset-inside-the-text", And(idx >= 0, idx <= length(data)))
        which = CTX.choose(3)
        if which == 0:
            return None
        if which == 1:
            raise PyRaise(ValueError("sub-combinator rejects"))
        n = fresh_int("sub_n")
        requires(And(n >= 0, idx + n <= length(data)))
        cnt = fresh_int("sub_items")
        requires(cnt >= 0)
        if exact_items is not None:
            requires(cnt == exact_items(self_))
        items = slist(CTX.fresh_name("sub_items"), "ref", 1 if one_item else cnt)
        if log is not None:
            log.append((self_, idx, n))
        return (n, items)
    return c


def _sub(name):
    return OBJ(PS, "Combinator", _tag=name)


@harness("C17", cases=[dict(cls=c) for c in ("FixStr", "Dict", "Spaces", "DecInt", "HexInt", "IntSpaces")] +
         [dict(cls="MultiDigit", base=b, digits=d) for (b, d) in ((2, 1), (2, 5), (3, 3), (6, 2), (36, 1), (5, 2))])
def leaf_decoder_safety(case):
    """leaf combinators: any text, any offset -> None, ValueError or a well-formed (n, items)"""
    if CTX.mode != "sym":
        return
    env, data, idx = _setup()
    if case.cls == "FixStr":
        obj = OBJ(PS, "FixStr", _s=sstr("fix"))
    elif case.cls == "Dict":
        obj = OBJ(PS, "Dict", _before=mklist([sref("b0"), sref("b1")]), _after=mklist([sstr("a0"), sstr("a1")]))
    elif case.cls == "Spaces":
        off = sint("offset")
        requires(And(off >= 0, off <= 34))
        obj = OBJ(PS, "Spaces", _space=sref("space"), _smallest="g", _offset=off, _max_consecutive=35 - off)
    elif case.cls == "DecInt":
        obj = OBJ(PS, "DecInt")
        loop_spec(PS + "::DecInt.deserialize", 0, inv=lambda ns: [ns.n_digits >= 0, ns.idx + ns.n_digits <= length(ns.data)])
    elif case.cls == "HexInt":
        obj = OBJ(PS, "HexInt")
    elif case.cls == "IntSpaces":
        mi, ms = sint("max_int"), sint("max_num_spaces")
        requires(And(mi >= 0, ms >= 0, (mi + 1) * (ms + 1) <= 36))
        obj = OBJ(PS, "IntSpaces", _space=sref("space"), _max_int=mi, _max_num_spaces=ms)
    else:
        obj = OBJ(PS, "MultiDigit", _base=case.base, _digits=case.digits)
    if case.cls == "HexInt":
        # int(s, 16) behind _from_base16: contract "only validated hex digits (1..3 of them) reach it; the value of L
        # hex digits lies in [0, 16**L)" (a fact about positional notation)
        import z3 as _z3
        from pyvc.hostmodels import UF as _UF

        def from16(it, a, k):
            t = a[0]
            if not isinstance(t, SStr):
                raise OutOfSubset("_from_base16 of a non-symbolic text")
            L = _z3.Length(t.t)

            def hexcode(j):
                c = _z3.StrToCode(_z3.SubString(t.t, j, 1))
                return _z3.Or(_z3.And(c >= 48, c <= 57), _z3.And(c >= 97, c <= 102))

            check("only-validated-hex-digits-reach-int(,16)", mk_bool(_z3.And(L >= 1, L <= 3, *[_z3.Implies(L > j, hexcode(j)) for j in range(3)])))
            v = _UF["int16"](t.t)
            assume_fact(mk_bool(_z3.And(v >= 0, v < _z3.If(L == 1, 16, _z3.If(L == 2, 256, 4096)))))
            return SInt(v)

        use_contract(PS + "::_from_base16", from16)
    o = call(REAL(PS, case.cls + ".deserialize"), obj, env, data, idx)
    r = _well_formed(o, data, idx)
    if r is None:
        return
    n, items = r
    # second clause of C17 at the leaves: whatever a leaf decoder returns lies in the set its own serialize accepts
    if case.cls == "HexInt":
        ok = is_list(items) and length(items) == 1
        check("hexint-yields-one-value", ok)
        if ok:
            v = item(items, 0)
            check("decoded-value-is-re-encodable:0<=v<=4095", And(v >= 0, v <= 4095))
    if case.cls == "IntSpaces":
        v0 = item(items, 0)
        v0 = SInt(v0.t) if isinstance(v0, SRef) else v0
        check("decoded-number-is-re-encodable:0<=v<=max_int", And(v0 >= 0, v0 <= attr(obj, "_max_int")))
    if case.cls == "MultiDigit":
        for j in range(case.digits):
            d = item(items, j)
            check("decoded-digit-is-re-encodable:0<=d<base", And(d >= 0, d < case.base))
    if case.cls == "Dict":
        v0 = item(items, 0)
        check("decoded-value-is-one-of-the-dictionary-keys", Or(same(v0, item(attr(obj, "_before"), 0)), same(v0, item(attr(obj, "_before"), 1))))
    if case.cls == "Spaces":
        # ground fact about int(c, 36) for one lower-case alphanumeric character (validated natively
        # for all 36 characters on every run): its value lies in [0, 35]
        from pyvc.hostmodels import UF
        import z3 as _z3
        c0 = _z3.SubString(data.t, idx.t if hasattr(idx, "t") else idx, 1)
        assume_fact(mk_bool(_z3.And(UF["int36"](c0) >= 0, UF["int36"](c0) <= 35)))
        check("spaces-run-length-in-range", And(length(items) >= 1, length(items) <= attr(obj, "_max_consecutive")))
    if case.cls == "MultiDigit":
        check("multidigit-yields-all-digits", length(items) == case.digits)
    if case.cls == "IntSpaces":
        check("intspaces-run-in-range", And(length(items) >= 1, length(items) <= 1 + attr(obj, "_max_num_spaces")))


@harness("C17", cases=[dict(cls=c) for c in ("OneOf", "Tupl", "Seq")])
def composite_decoder_safety(case):
    """OneOf / Tupl / Seq over sub-combinators that satisfy the abstract contract"""
    if CTX.mode != "sym":
        return
    env, data, idx = _setup()
    use_contract(ABS, abstract_contract())
    a, b = _sub("a"), _sub("b")
    if case.cls == "OneOf":
        obj = OBJ(PS, "OneOf", _choices=mklist([a, b]))
    elif case.cls == "Tupl":
        obj = OBJ(PS, "Tupl", _elements=mklist([a, b]))
    else:
        n = sint("n")
        obj = OBJ(PS, "Seq", _base=a, _n=n)
        loop_spec(PS + "::Seq.deserialize", 0, inv=lambda ns: [ns.n_read >= 0, ns.idx + ns.n_read <= length(ns.data), length(ns.ret) >= 0],
                  modifies=["ret"], types={"ret": "list:ref"})
    o = call(REAL(PS, case.cls + ".deserialize"), obj, env, data, idx)
    r = _well_formed(o, data, idx)
    if r is None:
        return
    n_, items = r
    if case.cls == "Seq":
        check("seq-yields-one-list", length(items) == 1)
        inner = item(items, 0)
        check("seq-list-has-n-items-when-n-nonnegative", implies(attr(obj, "_n") >= 0, length(inner) == attr(obj, "_n")))
    if case.cls == "Tupl":
        check("tupl-yields-one-tuple", length(items) == 1)


def seq_contract(it, args, kwargs):
    """contract of Seq.deserialize as proved above (for n >= 0)"""
    self_, env, data, idx = args
    check("pre:Seq:offset-inside-the-text", And(idx >= 0, idx <= length(data)))
    which = CTX.choose(3)
    if which == 0:
        return None
    if which == 1:
        raise PyRaise(ValueError("sub-combinator rejects"))
    n = fresh_int("seq_n")
    requires(And(n >= 0, idx + n <= length(data)))
    want = attr(self_, "_n")
    requires(want >= 0)
    return (n, mklist([slist(CTX.fresh_name("seq_items"), "ref", want)]))


@harness("C17", cases=[dict(dims=d) for d in ("env", "explicit")])
def grid_decoder_safety(case):
    """Grid.deserialize: its two asserts hold, every d2[i*width+j] is in range, result well formed"""
    if CTX.mode != "sym":
        return
    env, data, idx = _setup()
    use_contract(PS + "::Seq.deserialize", seq_contract)
    if case.dims == "env":
        obj = OBJ(PS, "Grid", _base=_sub("base"), _height=None, _width=None)
        H, W = attr(env, "height"), attr(env, "width")
    else:
        H, W = sint("gh"), sint("gw")
        requires(And(H >= 0, W >= 0))
        obj = OBJ(PS, "Grid", _base=_sub("base"), _height=H, _width=W)
    G = PS + "::Grid.deserialize"
    loop_spec(G, 0, inv=lambda ns: [length(ns.ret) == ns.i], modifies=["ret"], types={"ret": "list:ref", "row": "list:ref"},
              at_head=lambda ns: lemma("C13/lemma_row_major", True))
    loop_spec(G, 1, inv=lambda ns: [length(ns.row) == ns.j, ns.i >= 0, ns.i < ns.height], modifies=["row"], types={"row": "list:ref"},
              at_head=lambda ns: lemma("C13/lemma_row_major", implies(And(ns.i >= 0, ns.i < ns.height, ns.j >= 0, ns.j < ns.width),
                                                                  And(ns.i * ns.width + ns.j >= 0, ns.i * ns.width + ns.j < ns.height * ns.width))))
    o = call(REAL(PS, "Grid.deserialize"), obj, env, data, idx)
    r = _well_formed(o, data, idx)
    if r is None:
        return
    n_, items = r
    check("grid-yields-one-item", length(items) == 1)
    check("grid-has-height-rows", length(item(items, 0)) == H)


@harness("C17", cases=[dict(result=r) for r in ("none", "one", "many", "raises")])
def deserialize_problem_safety(case):
    """deserialize_problem: None passes through, exactly one item is unwrapped, anything else is a ValueError"""
    if CTX.mode != "sym":
        return
    data = sstr("text")
    comb = _sub("top")
    cnt = sint("count")
    requires(cnt >= 0)

    def top(it, args, kwargs):
        self_, env, text, idx = args
        check("starts-at-offset-0", idx == 0)
        check("same-text", text == data)
        if case.result == "none":
            return None
        if case.result == "raises":
            raise PyRaise(ValueError("rejected"))
        n = fresh_int("n")
        requires(And(n >= 0, n <= length(data)))
        if case.result == "one":
            return (n, mklist([sref("the_problem")]))
        requires(cnt != 1)
        return (n, slist("items", "ref", cnt))

    use_contract(ABS, top)
    o = call(REAL(PS, "deserialize_problem"), comb, data, height=sint("h"), width=sint("w"))
    if case.result == "none":
        check("none-passes-through", And(not o.raised, o.value is None))
    elif case.result == "raises":
        check("ValueError-propagates", o.exc == "ValueError")
    elif case.result == "one":
        check("problem-unwrapped", And(not o.raised, same(o.value, sref("the_problem"))))
    else:
        check("several-or-no-items-is-ValueError", o.exc == "ValueError")
