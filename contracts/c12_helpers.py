"""C12 — contracts of the aggregate helpers of cspuz/constraints.py (count_true, fold_or, fold_and, alldifferent)
over the FLAT item sequence (what flatten_iterator yields; the flattening of nestings itself is a generator and
stays with the bounded tier).  Proved for every number of items:

  count_true  : TypeError iff some item is neither a bool literal nor a BoolExpr; otherwise the result is the sum
                ADD(cond(x,1,0) for every BoolExpr item x, in order, EACH OCCURRENCE separately [, c]) where c > 0 is
                the number of literal Trues (appended only when positive), or the constant 0 when there is nothing
                to add — i.e. it denotes the number of true items;
  fold_or     : the constant True as soon as a literal True occurs; else OR(the BoolExpr items in order), constant
                False when there are none;   fold_and: the mirror image;
  alldifferent: ALLDIFF(all items in order), TypeError for anything that is not an int or an IntExpr.
Items are opaque references classified by a ghost KIND; prefix counts are uninterpreted functions with their
recursive definition asserted as quantified axioms (standard encoding of a fold).
"""
import z3 as _z3

from pyvc.api import *
from pyvc.values import VList, HostFn
from pyvc.sym import _zint

CO = "cspuz/constraints.py"
EX = "cspuz/expr.py"
I = _z3.IntSort()
T, F, BE, IE, IL, OTHER = 0, 1, 2, 3, 4, 5       # literal True / False, BoolExpr, IntExpr, int literal, anything else


def A(lst):
    """SMT array view of a list (concrete lists are converted on the fly)"""
    if lst.arr is None:
        c = lst.snapshot()
        c.make_symbolic("ref")
        return c.arr
    return lst.arr


class Items:
    def __init__(self, kinds_allowed):
        self.n = sint("n_items")
        requires(self.n >= 0)
        k_ = _z3.Int("k!it")
        self.items = VList(None, self.n.t, _z3.Lambda([k_], 9000000 + k_), "ref")
        self.KIND = _z3.Function("KIND", I, I)
        self.COND = _z3.Function("COND10", I, I)          # the expression x.cond(1, 0)
        self.CT = _z3.Function("COUNT_TRUE_LITERALS_BELOW", I, I)
        self.CE = _z3.Function("COUNT_EXPR_ITEMS_BELOW", I, I)
        # definitions of the prefix counts and the kind precondition are used as GROUND instances only
        # (facts_at): quantified recursive axioms make the solver give up
        self.kinds_allowed = kinds_allowed
        CTX.assume(self.CT(0) == 0)
        CTX.assume(self.CE(0) == 0)
        self.expr_kinds = (BE,)
        w = self

        def k_of(ref):
            return w.KIND(ref.t - 9000000)

        def isinstance_(ref, cls):
            nm = cls.name
            if nm == "BoolExpr":
                return SBool(k_of(ref) == BE)
            if nm == "IntExpr":
                return SBool(k_of(ref) == IE)
            if nm == "Expr":
                return SBool(_z3.Or(k_of(ref) == BE, k_of(ref) == IE))
            return False

        def is_(ref, other):
            if other is True:
                return SBool(k_of(ref) == T)
            if other is False:
                return SBool(k_of(ref) == F)
            if other is None:
                return False
            return NotImplemented

        def getattr_(ref, name):
            if name == "cond":
                def cond(it, a, k):
                    check("cond-branches-are-1-and-0", len(a) == 2 and a[0] == 1 and a[1] == 0)
                    return SRef(w.COND(ref.t))
                return HostFn(cond, "BoolExpr.cond", raw=True)
            raise OutOfSubset("attribute %s of an item" % name)

        ghost("sref_isinstance", isinstance_)
        ghost("sref_is", is_)
        ghost("sref_getattr", getattr_)
        ghost("sref_pytype", lambda ref, T_: self.pytype(ref, T_))
        use_contract(CO + "::flatten_iterator", lambda it, a, k: self.items)

    def facts_at(self, k):
        """ground instances at position k: the kind precondition and the defining equations of the prefix counts"""
        k = _zint(k)
        assume_fact(mk_bool(_z3.And(_z3.Or(*[self.KIND(k) == v for v in self.kinds_allowed]),
                                    self.CT(k + 1) == self.CT(k) + _z3.If(self.KIND(k) == T, 1, 0),
                                    self.CE(k + 1) == self.CE(k) + _z3.If(self.is_expr(k), 1, 0))))

    def is_expr(self, q):
        return _z3.Or(*[self.KIND(q) == v for v in getattr(self, "expr_kinds", (BE,))])

    def pytype(self, ref, T_):
        """isinstance(item, bool) / isinstance(item, int): Python's bool is an int"""
        k = self.KIND(ref.t - 9000000)
        if T_ is bool:
            return SBool(_z3.Or(k == T, k == F))
        if T_ is int:
            return SBool(_z3.Or(k == T, k == F, k == IL))
        return False

    def item(self, j):
        return 9000000 + j


def _args(w):
    # the helper is called as f(*args); flatten_iterator's contract returns the flat items whatever the nesting was
    return [Opaque("argument nesting")]


@harness("C12", cases=[dict(foreign=f) for f in (False, True)], structural=True)
def count_true(case):
    if CTX.mode != "sym":
        return
    w = Items((T, F, BE) if not case.foreign else (T, F, BE, IE, IL, OTHER))
    K = CO + "::count_true"

    def inv(ns):
        i = _zint(ns.idx)
        ops = ns.operands
        ln = _zint(length(ops))
        return [ns.constant == SInt(w.CT(i)), length(ops) == SInt(w.CE(i)), ns.constant >= 0,
                forall_range(ns.idx, lambda j: mk_bool(_z3.Or(w.KIND(j.t) == T, w.KIND(j.t) == F, w.KIND(j.t) == BE)), hint="q"),
                forall_range(ns.idx, lambda j: mk_bool(_z3.Implies(w.KIND(j.t) == BE, _z3.And(w.CE(j.t) >= 0, w.CE(j.t) < ln, _z3.Select(A(ops), w.CE(j.t)) == w.COND(w.item(j.t))))), hint="q")]

    loop_spec(K, 0, inv=inv, modifies=["operands", "constant"], types={"operands": "list:ref", "constant": "int", "x": "opaque"},
              at_head=lambda ns: w.facts_at(ns.idx))
    o = call(REAL(CO, "count_true"), *_args(w))
    j = fresh_int("j")
    if o.raised:
        check("raises-only-TypeError", o.exc == "TypeError")
        if case.foreign:
            return
        check("well-kinded-items-never-raise", False)
        return
    if case.foreign:
        requires(And(j >= 0, j < w.n))
        check("accepted-only-when-every-item-is-boolean-valued", mk_bool(_z3.Or(w.KIND(j.t) == T, w.KIND(j.t) == F, w.KIND(j.t) == BE)))
        return
    r = o.value
    Op = CLS(EX, "Op")
    nexp, ntrue = SInt(w.CE(w.n.t)), SInt(w.CT(w.n.t))
    ops = attr(r, "operands")
    if attr(r, "op") is attr(Op, "INT_CONSTANT"):
        check("constant-zero-only-when-nothing-is-counted", And(nexp == 0, ntrue == 0))
        check("constant-is-zero", And(length(ops) == 1, item(ops, 0) == 0))
        return
    check("otherwise-a-sum", attr(r, "op") is attr(Op, "ADD"))
    check("one-summand-per-expression-item-plus-the-literal-count", length(ops) == nexp + ite(ntrue > 0, 1, 0))
    requires(And(j >= 0, j < w.n))
    w.facts_at(j)
    check("summand-of-expression-item-j-is-its-0/1-indicator-at-its-own-position",
          implies(mk_bool(w.KIND(j.t) == BE), mk_bool(_z3.Select(A(ops), w.CE(j.t)) == w.COND(w.item(j.t)))))
    check("literal-Trues-counted-once-as-the-last-summand", implies(ntrue > 0, mk_bool(_z3.Select(A(ops), nexp.t) == ntrue.t)))
    check("sum-is-not-empty", length(ops) >= 1)


def _fold(case, fname, absorbing, opname):
    """fold_or: absorbing literal True, neutral False; fold_and: the mirror image"""
    w = Items((T, F, BE) if not case.foreign else (T, F, BE, IE, IL, OTHER))
    K = CO + "::" + fname
    ABS, NEU = (T, F) if absorbing is True else (F, T)

    def inv(ns):
        i = _zint(ns.idx)
        ops = ns.operands
        ln = _zint(length(ops))
        return [length(ops) == SInt(w.CE(i)),
                forall_range(ns.idx, lambda j: mk_bool(_z3.Or(w.KIND(j.t) == NEU, w.KIND(j.t) == BE)), hint="q"),
                forall_range(ns.idx, lambda j: mk_bool(_z3.Implies(w.KIND(j.t) == BE, _z3.And(w.CE(j.t) >= 0, w.CE(j.t) < ln, _z3.Select(A(ops), w.CE(j.t)) == w.item(j.t)))), hint="q")]

    cur = {}

    def head(ns):
        w.facts_at(ns.idx)
        cur["k"] = ns.idx

    loop_spec(K, 0, inv=inv, modifies=["operands"], types={"operands": "list:ref", "x": "opaque"}, at_head=head)
    o = call(REAL(CO, fname), *_args(w))
    j = fresh_int("j")
    if o.raised:
        check("raises-only-TypeError", o.exc == "TypeError")
        check("well-kinded-items-never-raise", case.foreign)
        return
    r = o.value
    Op = CLS(EX, "Op")
    ops = attr(r, "operands")
    if attr(r, "op") is attr(Op, "BOOL_CONSTANT"):
        v = item(ops, 0)
        check("constant-has-one-operand", length(ops) == 1)
        if v is absorbing:
            # the absorbing constant is justified only by an absorbing literal among the items: the return must
            # happen while the loop is looking at such an item
            check("absorbing-constant-only-because-of-an-absorbing-literal", "k" in cur and mk_bool(w.KIND(_zint(cur["k"])) == ABS))
            return
        check("neutral-constant-only-for-no-expression-items", v is (not absorbing))
        requires(And(j >= 0, j < w.n))
        check("then-every-item-is-the-neutral-literal", mk_bool(w.KIND(j.t) == NEU))
        return
    check("otherwise-the-%s-of-the-expression-items" % opname, attr(r, "op") is attr(Op, opname))
    requires(And(j >= 0, j < w.n))
    check("no-absorbing-literal-among-the-items", mk_bool(w.KIND(j.t) != ABS))
    if case.foreign:
        check("accepted-only-when-every-item-is-boolean-valued", mk_bool(_z3.Or(w.KIND(j.t) == NEU, w.KIND(j.t) == BE)))
        return
    check("one-operand-per-expression-item", length(ops) == SInt(w.CE(w.n.t)))
    check("operand-of-expression-item-j-is-that-item-at-its-own-position",
          implies(mk_bool(w.KIND(j.t) == BE), mk_bool(_z3.Select(A(ops), w.CE(j.t)) == w.item(j.t))))


@harness("C12", cases=[dict(foreign=f) for f in (False, True)], structural=True)
def fold_or(case):
    if CTX.mode != "sym":
        return
    _fold(case, "fold_or", True, "OR")


@harness("C12", cases=[dict(foreign=f) for f in (False, True)], structural=True)
def fold_and(case):
    if CTX.mode != "sym":
        return
    _fold(case, "fold_and", False, "AND")


@harness("C12", cases=[dict(foreign=f) for f in (False, True)], structural=True)
def alldifferent(case):
    if CTX.mode != "sym":
        return
    w = Items((IE, IL) if not case.foreign else (T, F, BE, IE, IL, OTHER))
    K = CO + "::alldifferent"

    def inv(ns):
        ops = ns.operands
        return [length(ops) == ns.idx,
                forall_range(ns.idx, lambda j: mk_bool(_z3.Select(A(ops), j.t) == w.item(j.t)), hint="q")]

    loop_spec(K, 0, inv=inv, modifies=["operands"], types={"operands": "list:ref", "x": "opaque"}, at_head=lambda ns: w.facts_at(ns.idx))
    o = call(REAL(CO, "alldifferent"), *_args(w))
    if o.raised:
        check("raises-only-TypeError", o.exc == "TypeError")
        check("well-kinded-items-never-raise", case.foreign)
        return
    r = o.value
    Op = CLS(EX, "Op")
    ops = attr(r, "operands")
    check("alldifferent-node", attr(r, "op") is attr(Op, "ALLDIFF"))
    check("one-operand-per-item", length(ops) == w.n)
    j = fresh_int("j")
    requires(And(j >= 0, j < w.n))
    check("operand-j-is-item-j", mk_bool(_z3.Select(A(ops), j.t) == w.item(j.t)))
