"""C12 — contracts of the aggregate helpers of cspuz/constraints.py (count_true, fold_or, fold_and, alldifferent)
over the FLAT item sequence (what flatten_iterator yields; the flattening of nestings itself is a generator and
stays with the bounded tier).  Proved for every number of items:

  count_true  : TypeError iff some item is neither a bool literal nor a BoolExpr; otherwise the result is the sum
                ADD(cond(x,1,0) for every BoolExpr item x, in order, EACH OCCURRENCE separately [, c]) where c > 0 is
                the number of literal Trues (appended only when positive), or the constant 0 when there is nothing
                to add — i.e. it denotes the number of true items;
  fold_or     : the constant True as soon as a literal True occurs; else OR(the BoolExpr items in order), constant
                False when there are none;   fold_and: the mirror image;
  alldifferent: ALLDIFF(all items in order), TypeError for anything that is not an int or an IntExpr.
Items are opaque references classified by a ghost KIND; prefix counts are uninterpreted functions with their
recursive definition asserted as quantified axioms (standard encoding of a fold).
"""
import z3 as _z3

from pyvc.api import *
from pyvc.values import VList, HostFn
from pyvc.sym import _zint

CO = "cspuz/constraints.py"
EX = "cspuz/expr.py"
I = _z3.IntSort()
T, F, BE, IE, IL, OTHER = 0, 1, 2, 3, 4, 5       # literal True / False, BoolExpr, IntExpr, int literal, anything else


def A(lst):
    """SMT array view of a list (concrete lists are converted on the fly)"""
    if lst.arr is None:
        c = lst.snapshot()
        c.make_symbolic("ref")
        return c.arr
    return lst.arr


class Items:
    def __init__(self, kinds_allowed):
        self.n = sint("n_items")
        requires(self.n >= 0)
        k_ = _z3.Int("k!it")
        self.items = VList(None, self.n.t, _z3.Lambda([k_], 9000000 + k_), "ref")
        self.KIND = _z3.Function("KIND", I, I)
        self.COND = _z3.Function("COND10", I, I)          # the expression x.cond(1, 0)
        self.CT = _z3.Function("COUNT_TRUE_LITERALS_BELOW", I, I)
        self.CE = _z3.Function("COUNT_EXPR_ITEMS_BELOW", I, I)
        # definitions of the prefix counts and the kind precondition are used as GROUND instances only
        # (facts_at): quantified recursive axioms make the solver give up
        self.kinds_allowed = kinds_allowed
        CTX.assume(self.CT(0) == 0)
        CTX.assume(self.CE(0) == 0)
        self.expr_kinds = (BE,)
        w = self

        def k_of(ref):
            return w.KIND(ref.t - 9000000)

        def isinstance_(ref, cls):
            nm = cls.name
            if nm == "BoolExpr":
                return SBool(k_of(ref) == BE)
            if nm == "IntExpr":
                return SBool(k_of(ref) == IE)
            if nm == "Expr":
                return SBool(_z3.Or(k_of(ref) == BE, k_of(ref) == IE))
            return False

        def is_(ref, other):
            if other is True:
                return SBool(k_of(ref) == T)
            if other is False:
                return SBool(k_of(ref) == F)
            if other is None:
                return False
            return NotImplemented

        def getattr_(ref, name):
            if name == "cond":
                def cond(it, a, k):
                    check("cond-branches-are-1-and-0", len(a) == 2 and a[0] == 1 and a[1] == 0)
                    return SRef(w.COND(ref.t))
                return HostFn(cond, "BoolExpr.cond", raw=True)
            raise OutOfSubset("attribute %s of an item" % name)

        ghost("sref_isinstance", isinstance_)
        ghost("sref_is", is_)
        ghost("sref_getattr", getattr_)
        ghost("sref_pytype", lambda ref, T_: self.pytype(ref, T_))
        use_contract(CO + "::flatten_iterator", lambda it, a, k: self.items)

    def facts_at(self, k):
        """ground instances at position k: the kind precondition and the defining equations of the prefix counts"""
        k = _zint(k)
        assume_fact(mk_bool(_z3.And(_z3.Or(*[self.KIND(k) == v for v in self.kinds_allowed]),
                                    self.CT(k + 1) == self.CT(k) + _z3.If(self.KIND(k) == T, 1, 0),
                                    self.CE(k + 1) == self.CE(k) + _z3.If(self.is_expr(k), 1, 0))))

    def is_expr(self, q):
        return _z3.Or(*[self.KIND(q) == v for v in getattr(self, "expr_kinds", (BE,))])

    def pytype(self, ref, T_):
        """isinstance(item, bool) / isinstance(item, int): Python's bool is an int"""
        k = self.KIND(ref.t - 9000000)
        if T_ is bool:
            return SBool(_z3.Or(k == T, k == F))
        if T_ is int:
            return SBool(_z3.Or(k == T, k == F, k == IL))
        return False

    def item(self, j):
        return 9000000 + j


def _args(w):
    # the helper is called as f(*args); flatten_iterator's contract returns the flat items whatever the nesting was
    return [Opaque("argument nesting")]


@harness("C12", cases=[dict(foreign=f) for f in (False, True)], structural=True)
def count_true(case):
    if CTX.mode != "sym":
        return
    w = Items((T, F, BE) if not case.foreign else (T, F, BE, IE, IL, OTHER))
    K = CO + "::count_true"

    def inv(ns):
        i = _zint(ns.idx)
        ops = ns.operands
        ln = _zint(length(ops))
        return [ns.constant == SInt(w.CT(i)), length(ops) == SInt(w.CE(i)), ns.constant >= 0,
                forall_range(ns.idx, lambda j: mk_bool(_z3.Or(w.KIND(j.t) == T, w.KIND(j.t) == F, w.KIND(j.t) == BE)), hint="q"),
                forall_range(ns.idx, lambda j: mk_bool(_z3.Implies(w.KIND(j.t) == BE, _z3.And(w.CE(j.t) >= 0, w.CE(j.t) < ln, _z3.Select(A(ops), w.CE(j.t)) == w.COND(w.item(j.t))))), hint="q")]

    loop_spec(K, 0, inv=inv, modifies=["operands", "constant"], types={"operands": "list:ref", "constant": "int", "x": "opaque"},
              at_head=lambda ns: w.facts_at(ns.idx))
    o = call(REAL(CO, "count_true"), *_args(w))
    j = fresh_int("j")
    if o.raised:
        check("raises-only-TypeError", o.exc == "TypeError")
        if case.foreign:
            return
        check("well-kinded-items-never-raise", False)
        return
    if case.foreign:
        requires(And(j >= 0, j < w.n))
        check("accepted-only-when-every-item-is-boolean-valued", mk_bool(_z3.Or(w.KIND(j.t) == T, w.KIND(j.t) == F, w.KIND(j.t) == BE)))
        return
    r = o.value
    Op = CLS(EX, "Op")
    nexp, ntrue = SInt(w.CE(w.n.t)), SInt(w.CT(w.n.t))
    ops = attr(r, "operands")
    if attr(r, "op") is attr(Op, "INT_CONSTANT"):
        check("constant-zero-only-when-nothing-is-counted", And(nexp == 0, ntrue == 0))
        check("constant-is-zero", And(length(ops) == 1, item(ops, 0) == 0))
        return
    check("otherwise-a-sum", attr(r, "op") is attr(Op, "ADD"))
    check("one-summand-per-expression-item-plus-the-literal-count", length(ops) == nexp + ite(ntrue > 0, 1, 0))
    requires(And(j >= 0, j < w.n))
    w.facts_at(j)
    check("summand-of-expression-item-j-is-its-0/1-indicator-at-its-own-position",
          implies(mk_bool(w.KIND(j.t) == BE), mk_bool(_z3.Select(A(ops), w.CE(j.t)) == w.COND(w.item(j.t)))))
    check("literal-Trues-counted-once-as-the-last-summand", implies(ntrue > 0, mk_bool(_z3.Select(A(ops), nexp.t) == ntrue.t)))
    check("sum-is-not-empty", length(ops) >= 1)


def _fold(case, fname, absorbing, opname):
    """fold_or: absorbing literal True, neutral False; fold_and: the mirror image"""
    w = Items((T, F, BE) if not case.foreign else (T, F, BE, IE, IL, OTHER))
    K = CO + "::" + fname
    ABS, NEU = (T, F) if absorbing is True else (F, T)

    def inv(ns):
        i = _zint(ns.idx)
        ops = ns.operands
        ln = _zint(length(ops))
        return [length(ops) == SInt(w.CE(i)),
                forall_range(ns.idx, lambda j: mk_bool(_z3.Or(w.KIND(j.t) == NEU, w.KIND(j.t) == BE)), hint="q"),
                forall_range(ns.idx, lambda j: mk_bool(_z3.Implies(w.KIND(j.t) == BE, _z3.And(w.CE(j.t) >= 0, w.CE(j.t) < ln, _z3.Select(A(ops), w.CE(j.t)) == w.item(j.t)))), hint="q")]

    cur = {}

    def head(ns):
        w.facts_at(ns.idx)
        cur["k"] = ns.idx

    loop_spec(K, 0, inv=inv, modifies=["operands"], types={"operands": "list:ref", "x": "opaque"}, at_head=head)
    o = call(REAL(CO, fname), *_args(w))
    j = fresh_int("j")
    if o.raised:
        check("raises-only-TypeError", o.exc == "TypeError")
        check("well-kinded-items-never-raise", case.foreign)
        return
    r = o.value
    Op = CLS(EX, "Op")
    ops = attr(r, "operands")
    if attr(r, "op") is attr(Op, "BOOL_CONSTANT"):
        v = item(ops, 0)
        check("constant-has-one-operand", length(ops) == 1)
        if v is absorbing:
            # the absorbing constant is justified only by an absorbing literal among the items: the return must
            # happen while the loop is looking at such an item
            check("absorbing-constant-only-because-of-an-absorbing-literal", "k" in cur and mk_bool(w.KIND(_zint(cur["k"])) == ABS))
            return
        check("neutral-constant-only-for-no-expression-items", v is (not absorbing))
        requires(And(j >= 0, j < w.n))
        check("then-every-item-is-the-neutral-literal", mk_bool(w.KIND(j.t) == NEU))
        return
    check("otherwise-the-%s-of-the-expression-items" % opname, attr(r, "op") is attr(Op, opname))
    requires(And(j >= 0, j < w.n))
    check("no-absorbing-literal-among-the-items", mk_bool(w.KIND(j.t) != ABS))
    if case.foreign:
        check("accepted-only-when-every-item-is-boolean-valued", mk_bool(_z3.Or(w.KIND(j.t) == NEU, w.KIND(j.t) == BE)))
        return
    check("one-operand-per-expression-item", length(ops) == SInt(w.CE(w.n.t)))
    check("operand-of-expression-item-j-is-that-item-at-its-own-position",
          implies(mk_bool(w.KIND(j.t) == BE), mk_bool(_z3.Select(A(ops), w.CE(j.t)) == w.item(j.t))))


@harness("C12", cases=[dict(foreign=f) for f in (False, True)], structural=True)
def fold_or(case):
    if CTX.mode != "sym":
        return
    _fold(case, "fold_or", True, "OR")


@harness("C12", cases=[dict(foreign=f) for f in (False, True)], structural=True)
def fold_and(case):
    if CTX.mode != "sym":
        return
    _fold(case, "fold_and", False, "AND")


@harness("C12", cases=[dict(foreign=f) for f in (False, True)], structural=True)
def alldifferent(case):
    if CTX.mode != "sym":
        return
    w = Items((IE, IL) if not case.foreign else (T, F, BE, IE, IL, OTHER))
    K = CO + "::alldifferent"

    def inv(ns):
        ops = ns.operands
        return [length(ops) == ns.idx,
                forall_range(ns.idx, lambda j: mk_bool(_z3.Select(A(ops), j.t) == w.item(j.t)), hint="q")]

    loop_spec(K, 0, inv=inv, modifies=["operands"], types={"operands": "list:ref", "x": "opaque"}, at_head=lambda ns: w.facts_at(ns.idx))
    o = call(REAL(CO, "alldifferent"), *_args(w))
    if o.raised:
        check("raises-only-TypeError", o.exc == "TypeError")
        check("well-kinded-items-never-raise", case.foreign)
        return
    r = o.value
    Op = CLS(EX, "Op")
    ops = attr(r, "operands")
    check("alldifferent-node", attr(r, "op") is attr(Op, "ALLDIFF"))
    check("one-operand-per-item", length(ops) == w.n)
    j = fresh_int("j")
    requires(And(j >= 0, j < w.n))
    check("operand-j-is-item-j", mk_bool(_z3.Select(A(ops), j.t) == w.item(j.t)))


# ------------------------------------------------------------------------------------------------ conv2d, four_neighbors
from pyvc.values import GhostVal as _GV

AR = "cspuz/array.py"


class _Window(_GV):
    """the sub-array self[y0:y1, x0:x1] as returned under the indexing contract proved by C13: its items, row-major, are
    the cells (y0 + k // (x1-x0), x0 + k % (x1-x0))"""
    pv_pytype = "object"

    def __init__(self, y0, y1, x0, x1):
        self.y0, self.y1, self.x0, self.x1 = y0, y1, x0, x1


@harness("C12", cases=[dict(op=o) for o in ("and", "or", "xor")])
def conv2d_windows(case):
    """conv2d(h, w, op): one AND / OR node per window position (y, x) with 0 <= y <= H-h, 0 <= x <= W-w, in row-major
    order, over exactly the window self[y:y+h, x:x+w]; shape (max(0,H-h+1), max(0,W-w+1)); any other op -> ValueError"""
    if CTX.mode != "sym":
        return
    H, W, h, w = sint("H"), sint("W"), sint("h"), sint("w")
    requires(And(H >= 0, W >= 0, h >= 1, w >= 1))
    Op = CLS(EX, "Op")
    made = []

    def getitem(it, a, k):
        key = a[1]
        if not (isinstance(key, tuple) and len(key) == 2 and all(isinstance(s_, slice) for s_ in key)):
            raise OutOfSubset("conv2d indexes with something else than a pair of slices")
        ys, xs = key
        if ys.step is not None or xs.step is not None:
            raise OutOfSubset("stepped window")
        return _Window(ys.start, ys.stop, xs.start, xs.stop)

    use_contract(AR + "::Array2D.__getitem__", getitem)
    use_contract(AR + "::BoolArray2D.__getitem__", getitem)

    def boolexpr_init(it, a, k):
        made.append((a[1], a[2]))
        return None

    use_contract(EX + "::BoolExpr.__init__", boolexpr_init)
    arr = OBJ(AR, "BoolArray2D", shape=(H, W), data=Opaque("cells"))
    rh, rw = ite(H - h + 1 > 0, H - h + 1, 0), ite(W - w + 1 > 0, W - w + 1, 0)
    mark = {}

    def head(ns):
        mark["n"] = len(made)
        return None

    def end(ns, token):
        new = made[mark["n"]:]
        check("one-node-per-window-position", len(new) == 1)
        check("nodes-in-row-major-order", length(ns.r_data) - 1 == ns.y * rw + ns.x)
        if len(new) == 1:
            op, comp = new[0]
            check("node-operator-is-the-requested-one", op is attr(Op, "AND" if case.op == "and" else "OR"))
            ok = isinstance(comp, _Window)
            check("node-is-over-a-window-of-the-array", ok)
            if ok:
                check("window-is-rows-y..y+h-and-columns-x..x+w", And(comp.y0 == ns.y, comp.y1 == ns.y + h, comp.x0 == ns.x, comp.x1 == ns.x + w))
                check("window-lies-inside-the-array", And(comp.y0 >= 0, comp.y1 <= H, comp.x0 >= 0, comp.x1 <= W))

    K = AR + "::BoolArray2D.conv2d"
    loop_spec(K, 0, inv=lambda ns: [length(ns.r_data) == ns.y * rw, ns.y >= 0], modifies=["r_data"], types={"r_data": "list:ref", "x": "int", "component": "opaque"})
    loop_spec(K, 1, inv=lambda ns: [length(ns.r_data) == ns.y * rw + ns.x, ns.y >= 0, ns.y < rh, ns.x >= 0], modifies=["r_data"],
              types={"r_data": "list:ref", "component": "opaque"}, at_head=head, at_end=end)
    res = {}

    def arr_init(it, a, k):
        res["data"], res["shape"] = a[1], a[2] if len(a) > 2 else k.get("shape")
        return None

    use_contract(AR + "::BoolArray2D.__init__", arr_init)
    o = call(REAL(AR, "BoolArray2D.conv2d"), arr, h, w, case.op)
    if case.op == "xor":
        check("other-operators-rejected-with-ValueError", o.exc == "ValueError")
        return
    check("no-exception", not o.raised)
    if o.raised:
        return
    check("result-shape", "shape" in res and isinstance(res["shape"], tuple) and And(res["shape"][0] == rh, res["shape"][1] == rw))
    check("one-entry-per-window", "data" in res and length(res["data"]) == rh * rw)


@harness("C12", cases=[dict(form=f) for f in ("two", "tuple", "bad-one-int", "bad-tuple-and-int")])
def four_neighbors_values(case):
    """_four_neighbors(array, y, x): the array's elements at the in-bounds members of (y-1,x), (y+1,x), (y,x-1), (y,x+1),
    in that order; both call forms; malformed argument combinations -> TypeError"""
    if CTX.mode != "sym":
        return
    H, W, y, x = sint("H"), sint("W"), sint("y"), sint("x")
    requires(And(H >= 1, W >= 1, y >= 0, y < H, x >= 0, x < W))
    got = []

    def getitem(it, a, k):
        key = a[1]
        got.append(key)
        return ("cell", key[0], key[1])

    use_contract(AR + "::Array2D.__getitem__", getitem)
    use_contract(AR + "::BoolArray2D.__getitem__", getitem)
    arr = OBJ(AR, "BoolArray2D", shape=(H, W), data=Opaque("cells"))
    f = REAL(AR, "_four_neighbors")
    if case.form == "two":
        o = call(f, arr, y, x)
    elif case.form == "tuple":
        o = call(f, arr, (y, x), None)
    elif case.form == "bad-one-int":
        o = call(f, arr, y, None)
        check("one-integer-rejected-with-TypeError", o.exc == "TypeError")
        return
    else:
        o = call(f, arr, (y, x), x)
        check("tuple-plus-integer-rejected-with-TypeError", o.exc == "TypeError")
        return
    check("no-exception", not o.raised)
    if o.raised:
        return
    want = []
    if bool(y > 0):
        want.append((y - 1, x))
    if bool(y < H - 1):
        want.append((y + 1, x))
    if bool(x > 0):
        want.append((y, x - 1))
    if bool(x < W - 1):
        want.append((y, x + 1))
    items = interp().iterate(o.value)
    check("one-element-per-in-bounds-neighbour", items is not None and len(items) == len(want))
    if items is not None and len(items) == len(want):
        for it_, (wy, wx) in zip(items, want):
            check("element-of-that-neighbour-in-the-documented-order", isinstance(it_, tuple) and it_[0] == "cell" and And(it_[1] == wy, it_[2] == wx))
