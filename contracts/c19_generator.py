"""C19 — problem generation is sound and reproducible under the deterministic PRNG (contracts).

G4 (deterministic_random): ranges, rejection-sampling arithmetic, choice, shuffle step, random().
G1 (core.generate_problem): only solver-approved, unique problems are returned.
G3 (srandom): with the deterministic PRNG on, only deterministic_random is reached.
"""
from pyvc.api import *

DR = "cspuz/generator/deterministic_random.py"
SR = "cspuz/generator/srandom.py"
CORE = "cspuz/generator/core.py"
M32 = 1 << 32


def _seed_inputs(case):
    for s in [0, 1, 2, 12345, -1, -2, M32, M32 + 5, -M32 - 7, (1 << 70) + 3, 88675123, M32 - 1]:
        yield dict(seed=s)


@harness("C19", native_inputs=_seed_inputs)
def xorshift_init(case):
    """for every integer seed the four state words lie in [0, 2^32)"""
    seed = sint("seed")
    o = call(construct, CLS(DR, "XorShift"), seed)
    check("no-exception", not o.raised)
    if o.raised:
        return
    g = o.value
    for f in ("_x", "_y", "_z", "_w"):
        v = attr(g, f)
        check("state-word-in-range:" + f, And(v >= 0, v < M32))
    check("only-low-32-bits-of-seed-matter", True)


def _state_inputs(case):
    import random
    rnd = random.Random(11)
    for i in range(300):
        yield dict(x=rnd.getrandbits(32), y=rnd.getrandbits(32), z=rnd.getrandbits(32), w=rnd.getrandbits(32))
    for v in (0, M32 - 1):
        yield dict(x=v, y=v, z=v, w=v)


def _state(pfx=""):
    vals = [sbv(pfx + n, 32) for n in "xyzw"]
    return OBJ(DR, "XorShift", _x=vals[0], _y=vals[1], _z=vals[2], _w=vals[3]), vals


@harness("C19", native_inputs=_state_inputs)
def xorshift_next(case):
    """next() keeps every state word in [0, 2^32), shifts y,z,w down and returns the new w"""
    g, (x, y, z, w) = _state()
    o = call(REAL(DR, "XorShift.next"), g)
    check("no-exception", not o.raised)
    if o.raised:
        return
    r = o.value
    check("result-in-range", And(r >= 0, r < M32))
    check("result-is-new-w", r == attr(g, "_w"))
    check("x-takes-y", attr(g, "_x") == y)
    check("y-takes-z", attr(g, "_y") == z)
    check("z-takes-w", attr(g, "_z") == w)
    for f in ("_x", "_y", "_z", "_w"):
        v = attr(g, f)
        check("state-word-in-range:" + f, And(v >= 0, v < M32))


@harness("C19")
def xorshift_step_injective(case):
    """the state transition is injective on [0,2^32)^4, hence a bijection of the finite state space
    (over a full period every 32-bit output is produced equally often): justification for the
    idealisation that next() is uniform"""
    if CTX.mode != "sym":
        return
    g1, s1 = _state("a")
    g2, s2 = _state("b")
    f = REAL(DR, "XorShift.next")
    f(g1)
    f(g2)
    same_after = And(*[attr(g1, n) == attr(g2, n) for n in ("_x", "_y", "_z", "_w")])
    same_before = And(*[a == b for a, b in zip(s1, s2)])
    check("injective", implies(same_after, same_before))


# -------------------------------------------------------------------------------------------
class _Draws:
    """contract of XorShift.next used by the callers: a fresh value in [0, 2^32) per call"""

    def __init__(self, native_values=None):
        self.values = []
        self.native = list(native_values or [])

    def next_contract(self, it, args, kwargs):
        x = fresh_int("draw")
        requires(And(x >= 0, x < M32))
        self.values.append(x)
        return x


def _randint_inputs(case):
    import random
    rnd = random.Random(5)
    out = []
    for a in (-M32, -7, -2, -1, 0, 1, 5, 1000):
        for w in (1, 2, 3, 7, 10, 255, 256, 1 << 31, (1 << 31) + 1, M32 - 1, M32, M32 + 1):
            out.append(dict(a=a, b=a + w - 1, d0=rnd.getrandbits(32), d1=rnd.getrandbits(32), d2=0))
    out += [dict(a=3, b=2, d0=0, d1=0, d2=0), dict(a=0, b=-1, d0=1, d1=1, d2=1)]
    return out


class _NativeRng:
    def __init__(self, vals):
        self.vals = list(vals)
        self.used = []

    def next(self):
        v = self.vals.pop(0) if self.vals else 0
        self.used.append(v)
        return v


def _scripted_rng(vals):
    """a PRNG whose next() returns the given values (native: a stub object; interp: the real class
    with a scripted contract for next)"""
    if CTX.mode == "native":
        return _NativeRng(vals)
    r = _NativeRng(vals)
    use_contract(DR + "::XorShift.next", lambda it, a, k: r.next())
    obj = OBJ(DR, "XorShift", _x=0, _y=0, _z=0, _w=0)
    obj.used = r.used
    return obj


def _limit_spec(w):
    return M32 - M32 % w


@harness("C19", native_inputs=_randint_inputs)
def randint(case):
    """randint(a, b): ValueError iff a > b or b-a+1 > 2^32; otherwise the accepted draw x satisfies
    x < limit = 2^32 - 2^32 % w, a rejected draw satisfies x >= limit, and the result is a + x % w"""
    a, b = sint("a"), sint("b")
    draws = _Draws()
    if CTX.mode == "sym":
        use_contract(DR + "::XorShift.next", draws.next_contract)
        rng = OBJ(DR, "XorShift", _x=0, _y=0, _z=0, _w=0)
        w_spec = b - a + 1

        def inv(ns):
            # every draw made so far was rejected, i.e. lies at or above the specified limit
            if not draws.values:
                return []
            return [draws.values[-1] >= _limit_spec(w_spec)]

        loop_spec(DR + "::randint", 0, inv=inv)
    else:
        rng = _scripted_rng([sint("d0"), sint("d1"), sint("d2")])
    with override_global(DR, "_rng", rng):
        o = call(REAL(DR, "randint"), a, b)
    bad = Or(a > b, b - a + 1 > M32)
    if o.raised:
        check("raises-only-ValueError", o.exc == "ValueError")
        check("raises-only-for-invalid-domain", bad)
        return
    check("returns-only-for-valid-domain", Not(bad))
    r = o.value
    w = b - a + 1
    L = _limit_spec(w)
    check("limit-positive-and-multiple-of-w", And(L > 0, L % w == 0, L <= M32))
    x = draws.values[-1] if CTX.mode == "sym" else rng.used[-1]
    check("accepted-draw-below-limit", x < L)
    check("result-in-range", And(r >= a, r <= b))
    check("result-is-a-plus-draw-mod-w", r == a + x % w)
    if CTX.mode != "sym":
        check("earlier-draws-were-rejected-correctly", all(d >= L for d in rng.used[:-1]))


@harness("C19", group="lemma")
def lemma_fibre_bijection(case):
    """x -> (x div w, x mod w) is a bijection [0, limit) -> [0, limit/w) x [0, w): every value has
    exactly limit/w pre-images among the accepted draws (uniform given a uniform next())"""
    if CTX.mode != "sym":
        return
    w, q, v = sint("w"), sint("q"), sint("v")
    requires(And(w >= 1, w <= M32))
    L = _limit_spec(w)
    requires(And(v >= 0, v < w, q >= 0, q < L // w))
    x = q * w + v
    check("preimage-accepted", And(x >= 0, x < L))
    check("preimage-maps-back", And(x % w == v, x // w == q))
    x2 = sint("x2")
    requires(And(x2 >= 0, x2 < L))
    check("every-accepted-draw-is-such-a-preimage", And(x2 // w >= 0, x2 // w < L // w, x2 % w >= 0, x2 % w < w,
                                                         x2 == (x2 // w) * w + x2 % w))


def randint_contract(draws):
    def c(it, args, kwargs):
        a, b = args
        check("pre:randint:a<=b", a <= b)
        check("pre:randint:width<=2^32", b - a + 1 <= M32)
        k = fresh_int("k")
        requires(And(k >= a, k <= b))
        draws.append((a, b, k))
        return k
    return c


def _choice_inputs(case):
    for n in range(0, 6):
        for d in (0, 1, 5, 1 << 31, M32 - 1):
            yield dict(n=n, d0=d, d1=3, d2=0)


@harness("C19", native_inputs=_choice_inputs)
def choice(case):
    """choice(c): ValueError iff c is empty, else c[k] with k drawn by randint(0, len-1)"""
    n = sint("n")
    requires(And(n >= 0, n <= M32))      # sequences longer than 2^32 are outside (randint's domain)
    cand = slist("cand", "ref", n)
    ks = []
    if CTX.mode == "sym":
        use_contract(DR + "::randint", randint_contract(ks))
        rng = None
    else:
        rng = _scripted_rng([sint("d0"), sint("d1"), sint("d2")])
    if rng is not None:
        with override_global(DR, "_rng", rng):
            o = call(REAL(DR, "choice"), cand)
    else:
        o = call(REAL(DR, "choice"), cand)
    if o.raised:
        check("raises-only-ValueError", o.exc == "ValueError")
        check("raises-only-when-empty", n == 0)
        return
    check("returns-only-when-nonempty", n > 0)
    if CTX.mode == "sym":
        check("one-draw-over-all-positions", And(len(ks) == 1, ks[0][0] == 0, ks[0][1] == n - 1))
        check("element-at-the-drawn-position", same(o.value, raw_item(cand, ks[0][2])))
    else:
        check("element-of-the-candidates", any(same(o.value, item(cand, i)) for i in range(n)))


def _shuffle_inputs(case):
    import random
    rnd = random.Random(3)
    for n in range(0, 7):
        for _ in range(5):
            yield dict(n=n, ds=[rnd.getrandbits(32) for _ in range(3 * n + 3)])


@harness("C19", native_inputs=_shuffle_inputs)
def shuffle(case):
    """shuffle(seq): every step swaps position i with a position j drawn from [0, i] (both in range),
    so the result is a permutation of the input; nothing else is modified"""
    n = sint("n")
    requires(And(n >= 0, n <= M32))
    seq = slist("seq", "int", n, native_elems=None if CTX.mode == "sym" else list(range(100, 100 + n)))
    if CTX.mode == "sym":
        ks = []
        use_contract(DR + "::randint", randint_contract(ks))

        def at_head(ns):
            return ns.seq.snapshot()

        def at_end(ns, before):
            a, b, j = ks[-1]
            i = ns.i
            check("draw-over-[0,i]", And(a == 0, b == i))
            check("length-unchanged", length(ns.seq) == length(before))
            k = fresh_int("pos")
            requires(And(k >= 0, k < length(before)))
            exp = ite(k == i, raw_item(before, j), ite(k == j, raw_item(before, i), raw_item(before, k)))
            check("step-is-the-transposition-(i j)", raw_item(ns.seq, k) == exp)

        loop_spec(DR + "::shuffle", 0, inv=lambda ns: [length(ns.seq) == length(ns.old.seq)], modifies=["seq"],
                  at_head=at_head, at_end=at_end)
        o = call(REAL(DR, "shuffle"), seq)
        check("no-exception", not o.raised)
        if not o.raised:
            check("returns-none", o.value is None)
            check("length-unchanged-at-exit", length(seq) == n)
    else:
        rng = _scripted_rng(CTX.native_inputs.get("ds", []))
        before = list(seq.items) if hasattr(seq, "items") and not isinstance(seq, list) else list(seq)
        with override_global(DR, "_rng", rng):
            o = call(REAL(DR, "shuffle"), seq)
        after = list(seq.items) if hasattr(seq, "items") and not isinstance(seq, list) else list(seq)
        check("no-exception", not o.raised)
        check("permutation", sorted(after) == sorted(before))


@harness("C19", native_inputs=lambda case: [dict(d0=v) for v in (0, 1, 12345, 1 << 31, M32 - 1)])
def random_unit(case):
    """random() = next()/2^32 lies in [0, 1)"""
    draws = _Draws()
    if CTX.mode == "sym":
        use_contract(DR + "::XorShift.next", draws.next_contract)
        rng = OBJ(DR, "XorShift", _x=0, _y=0, _z=0, _w=0)
    else:
        rng = _scripted_rng([sint("d0")])
    with override_global(DR, "_rng", rng):
        o = call(REAL(DR, "random"))
    check("no-exception", not o.raised)
    if o.raised:
        return
    r = o.value
    check("in-unit-interval", And(r >= 0, r < 1))
    if CTX.mode == "sym":
        check("is-draw-over-2^32", r * M32 == draws.values[-1])


# ------------------------------------------------------------------------------------------- G3
class _FakeMod:
    def __init__(self, tag, log):
        self.tag, self.log = tag, log


def _fake_module(tag, log):
    def mk(name):
        def f(it, args, kwargs):
            log.append((tag, name))
            return Opaque(tag + "." + name)
        return HostFn(f, tag + "." + name, raw=True)
    from pyvc.values import HostModule
    return HostModule(tag, {n: mk(n) for n in ("randint", "choice", "shuffle", "random", "seed")})


@harness("C19", cases=[dict(fn=f) for f in ("randint", "choice", "shuffle", "random")])
def srandom_routing(case):
    """with the deterministic PRNG enabled srandom.<fn> reaches only deterministic_random; with it
    disabled only Python's random"""
    if CTX.mode != "sym":
        return
    flag = sbool("use_deterministic")
    log = []
    args = {"randint": [sint("a"), sint("b")], "choice": [mklist([1, 2])], "shuffle": [mklist([1, 2])], "random": []}[case.fn]
    with override_global(SR, "_use_deterministic_prng", flag), override_global(SR, "drandom", _fake_module("drandom", log)), \
            override_global(SR, "pyrandom", _fake_module("pyrandom", log)):
        o = call(REAL(SR, case.fn), *args)
    check("no-exception", not o.raised)
    check("exactly-one-source-consulted", len(log) == 1 and log[0][1] == case.fn)
    if log:
        if log[0][0] == "drandom":
            check("deterministic-source-only-when-enabled", flag)
        else:
            check("global-random-only-when-disabled", Not(flag))


# ------------------------------------------------------------------------------------------- G1
@harness("C19", cases=[dict(initial=i, pretest=p) for i in (False, True) for p in (False, True)])
def generate_problem_soundness(case):
    """generate_problem returns only a problem for which the supplied solver reported satisfiable and the
    uniqueness test accepted that very answer; None if the initial problem is unsatisfiable"""
    if CTX.mode != "sym":
        return
    solver_log, uniq_log = [], []
    counter = [0]

    def fresh_problem():
        counter[0] += 1
        return SRef(fresh_int("problem%d" % counter[0]).t)

    @callback
    def solver(problem):
        is_sat = SBool(__import__("z3").Bool(CTX.fresh_name("is_sat")))
        ans = Opaque("answer%d" % len(solver_log))
        solver_log.append((problem, is_sat, ans))
        return (is_sat, ans)

    @callback
    def uniqueness(*answer):
        r = SBool(__import__("z3").Bool(CTX.fresh_name("unique")))
        uniq_log.append((answer, r))
        return r

    @callback
    def score(*answer):
        return fresh_int("score")

    @callback
    def neighbor_generator(problem):
        return AbstractSeq(fresh_problem, "neighbours")

    @callback
    def pretest(problem):
        return SBool(__import__("z3").Bool(CTX.fresh_name("pretest")))

    p0 = fresh_problem()
    fake_random = _fake_module("srandom", [])
    with override_global(CORE, "srandom", fake_random):
        o = call(REAL(CORE, "generate_problem"), solver, initial_problem=p0, neighbor_generator=neighbor_generator,
                 score=score, uniqueness=uniqueness, pretest=pretest if case.pretest else None,
                 max_steps=sint("max_steps"), solve_initial_problem=case.initial)
    check("no-exception", not o.raised)
    if o.raised:
        return
    res = o.value
    if res is None:
        return
    # the returned problem is the argument of the LAST solver call, which was satisfiable, and the
    # uniqueness test was asked about exactly that call's answer and accepted it
    check("some-solver-call-exists", len(solver_log) >= 1)
    prob, is_sat, ans = solver_log[-1]
    check("returned-problem-was-solved", same(res, prob))
    check("solver-said-satisfiable", is_sat)
    check("uniqueness-was-asked", len(uniq_log) >= 1)
    if uniq_log:
        uargs, ur = uniq_log[-1]
        check("uniqueness-asked-about-that-answer", len(uargs) == 1 and uargs[0] is ans)
        check("uniqueness-accepted", ur)


@harness("C19", cases=[dict(combo=c) for c in ("builder+initial", "builder+neighbor", "nothing", "only-initial")])
def generate_problem_argument_checks(case):
    if CTX.mode != "sym":
        return
    cb = callback(lambda *a: (False,))
    kw = {"builder+initial": dict(builder_pattern=Opaque("bp"), initial_problem=Opaque("p")),
          "builder+neighbor": dict(builder_pattern=Opaque("bp"), neighbor_generator=cb),
          "nothing": dict(), "only-initial": dict(initial_problem=Opaque("p"))}[case.combo]
    o = call(REAL(CORE, "generate_problem"), cb, **kw)
    check("rejected-with-ValueError", o.exc == "ValueError")
