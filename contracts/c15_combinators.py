"""C15 — step contracts of the composite combinators OneOf, Seq, Tupl, Grid (cspuz/problem_serializer.py) and the lemmas
that carry the round trip from the components to every composition.

The components are arbitrary: a ghost object whose serialize / deserialize answers every call with an arbitrary result
(None, or a pair) — for OneOf a function of the alternative's position, since all alternatives get the same arguments.
pyvc proves on the real methods that they compute exactly the result relations of lean/Codecs.lean:

  OneOf.serialize / deserialize   every alternative is asked in order with the caller's own (env, data, idx); the first
                                  answer that is not None is returned as it is; None when every answer is None  (`First`)
  Seq.serialize                   None at the end of data / for a non-list; otherwise from (n_read, texts) = (0, []):
                                  while n_read < n the base is asked at (d, n_read); None ends with None; else n_read
                                  grows by the items consumed and the text is appended; at the end n_read == n is
                                  asserted and (1, join of the texts) returned                                  (`SeqSer`)
  Seq.deserialize                 from (n_read, ret) = (0, []): while len(ret) < n the base is asked at idx + n_read;
                                  None ends with None; else n_read grows by the characters consumed and ret is extended
                                  by the items; result (n_read, [ret[:n]])                                      (`SeqDes`)
  Tupl.serialize / deserialize    element i is asked about component i at index 0 / about the text at idx + ofs; None
                                  ends with None; texts are joined / ofs grows and the items are appended as one
                                  component; results (1, text) / (ofs, [tuple of the components])    (`TuplSer`, `TuplDes`)
  Grid.serialize / deserialize    the rows 0..height-1 are concatenated and handed as ONE list to Seq(base, height*width)
                                  at the caller's idx, the result is passed on; on the way back the flat list of
                                  height*width items is cut into rows ret[i][j] = flat[i*width + j]        (`grid`, `rowsOf`)

Lean 4 (lean/Codecs.lean, re-checked on every run) then proves, for every nesting: if the components round-trip with
arbitrary text before and after (`RT`; `RTp` = up to padding after the last item, which is what MultiDigit does and what
Seq cuts off again) and the alternatives of a OneOf have pairwise disjoint leading characters and refuse other text
(`Lead`), then the composition round-trips (`oneOf_RTg`, `oneOf_Lead`, `seq_RT`, `tupl_RT`, `grid_RT`, `grid_oneOf_RT`),
and `problem_roundtrip`: deserialize_problem(c, serialize_problem(c, x)) reads the whole text and returns x.
The leaves' `RT` / `RTp` and `Lead` facts are the pyvc contracts of contracts/c15_leaf_codecs.py.
Assumed (listed in the evidence): component calls are functions of their arguments (no state between calls; the bounded
tier runs shared instances across boards for exactly that), the hand translation of these step contracts into the
inductive relations of the Lean file, Python list/str/tuple semantics as modelled by pyvc.  Rooms / ValuedRooms (flood
fill, sorting) are not covered here: bounded.  DecInt is a leaf contract (c15_leaf_codecs.decint_roundtrip).
"""
import z3 as _z3

from pyvc.api import *
from pyvc.values import VList, HostFn, GhostVal, AbstractSeq, PointwiseSeq, Opaque, VObj
from pyvc.sym import _zint

PS = "cspuz/problem_serializer.py"
I = _z3.IntSort()
B = _z3.BoolSort()


def _env():
    return OBJ(PS, "CombinatorEnv", height=sint("env_h"), width=sint("env_w"))


class Alt(GhostVal):
    """alternative number j of a OneOf: its answer to the one question asked is a function of j"""

    def __init__(self, j, world):
        self.j, self.w = j, world

    def pv_getattr(self, name):
        if name not in ("serialize", "deserialize"):
            raise OutOfSubset("component attribute %s" % name)
        w, j = self.w, self.j

        def f(it, a, k):
            w["calls"].append((name, j, tuple(a), dict(k)))
            if bool(mk_bool(w["NONE"](_zint(j)))):
                return None
            return w["answer"](j)
        return HostFn(f, "component." + name, raw=True)


class Alts(GhostVal):
    pv_pytype = "list"
    pv_indexed = True

    def __init__(self, n, world):
        self.n, self.w = n, world

    def pv_len(self):
        return self.n

    def pv_getitem(self, j):
        if not bool((j >= 0) & (j < self.n)):
            raise PyRaise(IndexError("list index out of range"))
        return Alt(j, self.w)


@harness("C15", cases=[dict(m="serialize"), dict(m="deserialize")])
def oneof_is_first_answer(case):
    """OneOf: the first alternative (in order) whose answer is not None decides; every alternative asked is asked the
    caller's own question"""
    if CTX.mode != "sym":
        return
    n = sint("n_alternatives")
    requires(n >= 0)
    answers = {}

    def answer(j):
        # one answer object per position and path (the same position is asked once)
        key = _z3.simplify(_zint(j)).sexpr()
        if key not in answers:
            answers[key] = (fresh_int("consumed"), sstr("text") if case.m == "serialize" else Opaque("items"))
        return answers[key]

    world = dict(calls=[], NONE=_z3.Function("ANSWER_IS_NONE", I, B), answer=answer)
    me = OBJ(PS, "OneOf", _choices=Alts(n, world))
    env, idx = _env(), sint("idx")
    data = Opaque("data") if case.m == "serialize" else sstr("text")
    K = PS + "::OneOf." + case.m
    cur = {}

    def head(ns):
        cur["idx"], cur["calls"] = ns.idx, len(world["calls"])
        return None

    def end(ns, token):
        new = world["calls"][cur["calls"]:]
        check("one-question-per-alternative", len(new) == 1)
        if len(new) == 1:
            _question(new[0], ns.idx)
        check("an-answer-that-is-not-None-ends-the-search", mk_bool(world["NONE"](_zint(ns.idx))))

    def _question(c, j):
        name, who, a, k = c
        check("asked-in-order", who == j)
        check("asked-the-same-operation", name == case.m)
        check("asked-the-caller's-own-question", len(a) == 3 and not k and a[0] is env and a[1] is data and a[2] == idx)

    loop_spec(K, 0, inv=lambda ns: [forall_range(ns.idx, lambda j: mk_bool(world["NONE"](j.t)), hint="q")], modifies=[],
              types={"res": "opaque"}, at_head=head, at_end=end)
    o = call(REAL(PS, "OneOf." + case.m), me, env, data, idx)
    check("no-exception", not o.raised)
    if o.raised:
        return
    if o.value is None:
        # (on this path the loop was left normally: the invariant holds for all n positions)
        check("None-only-when-every-alternative-answered-None", len(world["calls"]) == 0)
        j = fresh_int("alt")
        requires(And(j >= 0, j < n))
        check("None-only-when-every-alternative-answered-None/all", mk_bool(world["NONE"](j.t)))
    else:
        ok = len(world["calls"]) == 1
        check("the-deciding-alternative-was-asked-the-caller's-question", ok)
        if ok:
            _question(world["calls"][0], cur["idx"])
            j = cur["idx"]
            check("its-answer-is-not-None", Not(mk_bool(world["NONE"](_zint(j)))))
            check("its-answer-is-returned-unchanged", _same_answer(o.value, answer(j)))
            q = fresh_int("earlier")
            requires(And(q >= 0, q < j))
            check("every-earlier-alternative-answered-None", mk_bool(world["NONE"](q.t)))


def _join_term(ev):
    items = ev["items"]
    fn = _z3.Function("py_join_%s" % "".join("%02x" % ord(c) for c in ev["sep"]),
                      _z3.ArraySort(_z3.IntSort(), _z3.StringSort()), _z3.IntSort(), _z3.StringSort())
    return fn(items.arr, items.length)


def _same_answer(v, ans):
    """the value v is the answer `ans` of a component (the same object, or an equal pair)"""
    if v is ans:
        return True
    if isinstance(v, tuple) and isinstance(ans, tuple) and len(v) == len(ans) == 2:
        second = v[1] is ans[1] or (isinstance(ans[1], SStr) and isinstance(v[1], (SStr, str)) and v[1] == ans[1])
        return And(v[0] == ans[0], second)
    return False


class Base(GhostVal):
    """an arbitrary base / element combinator: every call is logged and answered by an arbitrary fresh result"""

    def __init__(self, world, kind, name="base"):
        self.w, self.kind, self.name = world, kind, name

    def pv_getattr(self, name):
        if name not in ("serialize", "deserialize"):
            raise OutOfSubset("component attribute %s" % name)
        w = self.w

        def f(it, a, k):
            if bool(sbool_fresh("answer_is_none")):
                res = None
            elif name == "serialize":
                res = (fresh_int("items_consumed"), SStr(_z3.String(CTX.fresh_name("text"))))
            else:
                items = VList([])
                items.havoc("ref")
                res = (fresh_int("chars_consumed"), items)
            w["calls"].append((name, self, tuple(a), dict(k), res))
            return res
        return HostFn(f, self.name + "." + name, raw=True)


def _init_only(cur, conds):
    """a loop 'invariant' that only states the loop's initial state: evaluated on the first call (the init check of the
    path), empty afterwards"""
    def inv(ns):
        if cur.get("inv_seen"):
            return []
        cur["inv_seen"] = True
        return conds(ns)
    return inv


def sbool_fresh(hint):
    return SBool(_z3.Bool(CTX.fresh_name(hint)))


class ItemList(GhostVal):
    """a list value handed through to the base combinator untouched"""
    pv_pytype = "list"

    def __init__(self, label):
        self.label = label


def _arr(lst):
    """z3 array view of a list (concrete lists are converted on a copy)"""
    if lst.is_concrete():
        c = lst.snapshot()
        c.make_symbolic("ref")
        return c.arr
    return lst.arr


def _same_list(a, b):
    """two symbolic lists have the same length and the same elements"""
    k = fresh_int("pos")
    return And(length(a) == length(b), implies(And(k >= 0, k < length(a)), mk_bool(_z3.Select(a.arr, k.t) == _z3.Select(b.arr, k.t))))


@harness("C15", structural=True, cases=[dict(at="end"), dict(at="nonlist"), dict(at="list")])
def seq_serialize_steps(case):
    """Seq.serialize: None at the end of data and for a non-list item; otherwise the loop of `SeqSer`"""
    if CTX.mode != "sym":
        return
    n, idx, L = sint("n"), sint("idx"), sint("len_data")
    requires(And(L >= 0, idx >= 0, idx <= L))
    world = dict(calls=[])
    base = Base(world, "item")
    d = ItemList("d")
    env = _env()

    class Data(GhostVal):
        pv_pytype = "list"

        def pv_len(self):
            return L

        def pv_getitem(self, i):
            if not bool((i >= 0) & (i < L)):
                raise PyRaise(IndexError("list index out of range"))
            check("only-the-item-at-idx-is-read", i == idx)
            return d if case.at == "list" else 5

    data = Data()
    requires(idx == L if case.at == "end" else idx < L)
    me = OBJ(PS, "Seq", _base=base, _n=n)
    K = PS + "::Seq.serialize"
    cur = {}

    def new_ret():
        r = VList([])
        r.havoc("str")
        cur["ret"] = r
        return r

    def new_nread():
        cur["n_read"] = fresh_int("n_read")
        return cur["n_read"]

    def head(ns):
        cur["calls"] = len(world["calls"])
        check("an-iteration-runs-only-while-n_read<n", ns.n_read < n)
        return (ns.n_read, ns.ret.snapshot())

    def end(ns, token):
        n0, ret0 = token
        new = world["calls"][cur["calls"]:]
        check("one-question-per-iteration", len(new) == 1)
        if len(new) != 1:
            return
        name, who, a, k, res = new[0]
        check("the-base-is-asked-to-serialize-the-list-at-n_read", name == "serialize" and who is base and len(a) == 3 and not k
              and a[0] is env and a[1] is d and a[2] == n0)
        check("a-None-answer-ends-with-None", res is not None)
        if res is None:
            return
        check("n_read-grows-by-the-items-consumed", ns.n_read == n0 + res[0])
        check("the-text-is-appended", And(length(ns.ret) == length(ret0) + 1, item(ns.ret, length(ret0)) == res[1]))
        check("earlier-texts-untouched", forall_range(length(ret0), lambda q: mk_bool(_z3.Select(ns.ret.arr, q.t) == _z3.Select(ret0.arr, q.t))))

    loop_spec(K, 0, inv=_init_only(cur, lambda ns: [ns.n_read == 0, length(ns.ret) == 0]), modifies=["ret", "n_read"],
              types={"ret": new_ret, "n_read": new_nread, "tmp": "opaque", "ofs": "int", "d2": "str"},
              at_head=head, at_end=end)
    n_join = len(events("join"))
    o = call(REAL(PS, "Seq.serialize"), me, env, data, idx)
    if case.at != "list":
        check("None-at-the-end-of-data-or-for-a-non-list", And(not o.raised, o.value is None))
        check("the-base-is-not-asked", len(world["calls"]) == 0)
        return
    if o.raised:
        # only the assertion after the loop may fail (n_read ran past n): no result
        check("only-the-final-assertion-can-fail", o.exc == "AssertionError" and "n_read" in cur and cur["n_read"] != n)
        return
    if o.value is None:
        ok = len(world["calls"]) == 1 and world["calls"][0][4] is None
        check("None-only-after-a-None-answer-of-the-base", ok)
        return
    # normal exit: the guard is false in the state (n_read, ret) the loop was left in
    joins = events("join")[n_join:]
    ok = len(joins) == 1 and joins[0][1]["sep"] == "" and "ret" in cur
    check("result-is-one-join-without-separator", ok)
    if ok:
        check("the-loop-ends-when-n_read-reaches-n", cur["n_read"] == n)
        check("the-joined-list-is-the-list-of-texts", _same_list(joins[0][1]["items"], cur["ret"]))
        check("result-is-(1,-joined-text)", isinstance(o.value, tuple) and len(o.value) == 2 and And(o.value[0] == 1, o.value[1] == SStr(_join_term(joins[0][1]))))


@harness("C15", structural=True)
def seq_deserialize_steps(case):
    """Seq.deserialize: the loop of `SeqDes`"""
    if CTX.mode != "sym":
        return
    n, idx = sint("n"), sint("idx")
    requires(idx >= 0)
    world = dict(calls=[])
    base = Base(world, "item")
    env, text = _env(), sstr("text")
    me = OBJ(PS, "Seq", _base=base, _n=n)
    K = PS + "::Seq.deserialize"
    cur = {}

    def new_ret():
        r = VList([])
        r.havoc("ref")
        cur["ret"] = r
        return r

    def new_nread():
        cur["n_read"] = fresh_int("n_read")
        return cur["n_read"]

    def head(ns):
        cur["calls"] = len(world["calls"])
        check("an-iteration-runs-only-while-fewer-than-n-items-are-there", length(ns.ret) < n)
        return (ns.n_read, ns.ret.snapshot())

    def end(ns, token):
        n0, ret0 = token
        new = world["calls"][cur["calls"]:]
        check("one-question-per-iteration", len(new) == 1)
        if len(new) != 1:
            return
        name, who, a, k, res = new[0]
        check("the-base-is-asked-to-deserialize-the-text-at-idx+n_read", name == "deserialize" and who is base and len(a) == 3 and not k
              and a[0] is env and a[1] is text and a[2] == idx + n0)
        check("a-None-answer-ends-with-None", res is not None)
        if res is None:
            return
        items = res[1]
        check("n_read-grows-by-the-characters-consumed", ns.n_read == n0 + res[0])
        check("the-items-are-appended", length(ns.ret) == length(ret0) + length(items))
        check("the-items-are-appended/content", forall_range(length(items), lambda q: mk_bool(_z3.Select(ns.ret.arr, length(ret0).t + q.t) == _z3.Select(items.arr, q.t))))
        check("earlier-items-untouched", forall_range(length(ret0), lambda q: mk_bool(_z3.Select(ns.ret.arr, q.t) == _z3.Select(ret0.arr, q.t))))

    loop_spec(K, 0, inv=_init_only(cur, lambda ns: [ns.n_read == 0, length(ns.ret) == 0]), modifies=["ret", "n_read"],
              types={"ret": new_ret, "n_read": new_nread, "tmp": "opaque", "ofs": "int", "d": "opaque"},
              at_head=head, at_end=end)
    o = call(REAL(PS, "Seq.deserialize"), me, env, text, idx)
    check("no-exception", not o.raised)
    if o.raised:
        return
    if o.value is None:
        ok = len(world["calls"]) == 1 and world["calls"][0][4] is None
        check("None-only-after-a-None-answer-of-the-base", ok)
        return
    ok = isinstance(o.value, tuple) and len(o.value) == 2 and "ret" in cur and is_list(o.value[1])
    check("result-is-a-pair-(characters,-[list])", ok)
    if not ok:
        return
    ret = cur["ret"]
    check("the-loop-ends-when-n-items-are-there", length(ret) >= n)
    check("characters-consumed-is-n_read", o.value[0] == cur["n_read"])
    check("one-item:-the-list", length(o.value[1]) == 1)
    got = item(o.value[1], 0)
    ok = is_list(got)
    check("that-item-is-a-list", ok)
    if ok:
        cut = ite(n >= 0, n, ite(length(ret) + n >= 0, length(ret) + n, 0))        # ret[:n] for any n (negative n cannot occur after the loop with len(ret) >= n >= 0 ... kept general)
        check("of-the-first-n-items-produced", length(got) == ite(cut <= length(ret), cut, length(ret)))
        check("of-the-first-n-items-produced/content", forall_range(length(got), lambda q: mk_bool(_z3.Select(got.arr, q.t) == _z3.Select(ret.arr, q.t))))


class Element(GhostVal):
    """element number j of a Tupl: every call is logged and answered by an arbitrary fresh result"""

    def __init__(self, j, world):
        self.j, self.w = j, world

    def pv_getattr(self, name):
        if name not in ("serialize", "deserialize"):
            raise OutOfSubset("component attribute %s" % name)
        w, j = self.w, self.j

        def f(it, a, k):
            if bool(sbool_fresh("answer_is_none")):
                res = None
            elif name == "serialize":
                res = (fresh_int("items_consumed"), SStr(_z3.String(CTX.fresh_name("text"))))
            else:
                res = (fresh_int("chars_consumed"), SRef(_z3.Int(CTX.fresh_name("items"))))
            w["calls"].append((name, j, tuple(a), dict(k), res))
            return res
        return HostFn(f, "element." + name, raw=True)


class Elements(GhostVal):
    pv_pytype = "list"
    pv_indexed = True

    def __init__(self, n, world):
        self.n, self.w = n, world

    def pv_len(self):
        return self.n

    def pv_getitem(self, j):
        if not bool((j >= 0) & (j < self.n)):
            raise PyRaise(IndexError("list index out of range"))
        return Element(j, self.w)


class Component(GhostVal):
    """component number j of the tuple value (a list of items, handed through untouched)"""
    pv_pytype = "list"

    def __init__(self, j):
        self.j = j


@harness("C15", structural=True, cases=[dict(at="end"), dict(at="nontuple"), dict(at="length"), dict(at="tuple")])
def tupl_serialize_steps(case):
    """Tupl.serialize: None at the end of data, for a non-tuple and for a tuple of another length; otherwise `TuplSer`"""
    if CTX.mode != "sym":
        return
    m, md, idx, L = sint("n_elements"), sint("len_tuple"), sint("idx"), sint("len_data")
    requires(And(L >= 0, idx >= 0, idx <= L, m >= 0, md >= 0))
    requires(idx == L if case.at == "end" else idx < L)
    if case.at == "length":
        requires(md != m)
    if case.at == "tuple":
        requires(md == m)
    world = dict(calls=[])
    env = _env()

    class Tup(GhostVal):
        pv_pytype = "tuple"

        def pv_len(self):
            return md

        def pv_getitem(self, i):
            if not bool((i >= 0) & (i < md)):
                raise PyRaise(IndexError("tuple index out of range"))
            return Component(i)

    d = Tup()

    class Data(GhostVal):
        pv_pytype = "list"

        def pv_len(self):
            return L

        def pv_getitem(self, i):
            if not bool((i >= 0) & (i < L)):
                raise PyRaise(IndexError("list index out of range"))
            check("only-the-item-at-idx-is-read", i == idx)
            return 5 if case.at == "nontuple" else d

    data = Data()
    me = OBJ(PS, "Tupl", _elements=Elements(m, world))
    K = PS + "::Tupl.serialize"
    cur = {}

    def new_parts():
        r = VList([])
        r.havoc("str")
        cur["parts"] = r
        return r

    def head(ns):
        cur["calls"] = len(world["calls"])
        return ns.parts.snapshot()

    def end(ns, parts0):
        i = ns.i
        new = world["calls"][cur["calls"]:]
        check("one-question-per-element", len(new) == 1)
        if len(new) != 1:
            return
        name, who, a, k, res = new[0]
        ok = name == "serialize" and len(a) == 3 and not k and a[0] is env and isinstance(a[1], Component)
        check("element-i-is-asked-to-serialize-component-i-at-index-0", ok and And(who == i, a[1].j == i, a[2] == 0))
        check("a-None-answer-ends-with-None", res is not None)
        if res is None:
            return
        check("the-text-is-appended", And(length(ns.parts) == length(parts0) + 1, item(ns.parts, length(parts0)) == res[1]))
        check("earlier-texts-untouched", forall_range(length(parts0), lambda q: mk_bool(_z3.Select(ns.parts.arr, q.t) == _z3.Select(parts0.arr, q.t))))

    loop_spec(K, 0, inv=lambda ns: [length(ns.parts) == ns.i], modifies=["parts"], types={"parts": new_parts, "res": "opaque"},
              at_head=head, at_end=end)
    n_join = len(events("join"))
    o = call(REAL(PS, "Tupl.serialize"), me, env, data, idx)
    check("no-exception", not o.raised)
    if o.raised:
        return
    if case.at != "tuple":
        check("None-at-the-end-of-data,-for-a-non-tuple,-for-another-length", o.value is None)
        check("no-element-is-asked", len(world["calls"]) == 0)
        return
    if o.value is None:
        check("None-only-after-a-None-answer-of-an-element", len(world["calls"]) == 1 and world["calls"][0][4] is None)
        return
    joins = events("join")[n_join:]
    ok = len(joins) == 1 and joins[0][1]["sep"] == "" and "parts" in cur
    check("result-is-one-join-without-separator", ok)
    if ok:
        check("the-joined-list-is-the-list-of-texts", _same_list(joins[0][1]["items"], cur["parts"]))
        check("one-text-per-element", length(cur["parts"]) == m)
        check("result-is-(1,-joined-text)", isinstance(o.value, tuple) and len(o.value) == 2 and And(o.value[0] == 1, o.value[1] == SStr(_join_term(joins[0][1]))))


@harness("C15", structural=True)
def tupl_deserialize_steps(case):
    """Tupl.deserialize: the loop of `TuplDes`, result (ofs, [tuple of the components read])"""
    if CTX.mode != "sym":
        return
    m, idx = sint("n_elements"), sint("idx")
    requires(And(m >= 0, idx >= 0))
    world = dict(calls=[])
    env, text = _env(), sstr("text")
    me = OBJ(PS, "Tupl", _elements=Elements(m, world))
    K = PS + "::Tupl.deserialize"
    cur = {}

    def new_parts():
        r = VList([])
        r.havoc("ref")
        cur["parts"] = r
        return r

    def new_ofs():
        cur["ofs"] = fresh_int("ofs")
        return cur["ofs"]

    def head(ns):
        cur["calls"] = len(world["calls"])
        return (ns.ofs, ns.parts.snapshot())

    def end(ns, token):
        ofs0, parts0 = token
        j = ns.idx
        new = world["calls"][cur["calls"]:]
        check("one-question-per-element", len(new) == 1)
        if len(new) != 1:
            return
        name, who, a, k, res = new[0]
        check("element-j-is-asked-to-deserialize-the-text-at-idx+ofs", name == "deserialize" and len(a) == 3 and not k and a[0] is env and a[1] is text
              and And(who == j, a[2] == idx + ofs0))
        check("a-None-answer-ends-with-None", res is not None)
        if res is None:
            return
        check("ofs-grows-by-the-characters-consumed", ns.ofs == ofs0 + res[0])
        check("the-items-are-appended-as-one-component", And(length(ns.parts) == length(parts0) + 1, item(ns.parts, length(parts0)) == res[1]))
        check("earlier-components-untouched", forall_range(length(parts0), lambda q: mk_bool(_z3.Select(ns.parts.arr, q.t) == _z3.Select(parts0.arr, q.t))))

    loop_spec(K, 0, inv=lambda ns: [length(ns.parts) == ns.idx] + ([ns.ofs == 0] if not cur.setdefault("seen", False) and not cur.update(seen=True) else []),
              modifies=["parts", "ofs"], types={"parts": new_parts, "ofs": new_ofs, "res": "opaque", "n_read": "int", "val": "opaque"},
              at_head=head, at_end=end)
    o = call(REAL(PS, "Tupl.deserialize"), me, env, text, idx)
    check("no-exception", not o.raised)
    if o.raised:
        return
    if o.value is None:
        check("None-only-after-a-None-answer-of-an-element", len(world["calls"]) == 1 and world["calls"][0][4] is None)
        return
    ok = isinstance(o.value, tuple) and len(o.value) == 2 and "parts" in cur and is_list(o.value[1])
    check("result-is-a-pair-(characters,-[tuple])", ok)
    if not ok:
        return
    parts = cur["parts"]
    check("one-component-per-element", length(parts) == m)
    check("characters-consumed-is-ofs", o.value[0] == cur["ofs"])
    check("one-item", length(o.value[1]) == 1)
    got = item(o.value[1], 0)
    evs = [e for e in events("tuple")]
    ok = len(evs) == 1
    check("that-item-is-the-tuple-of-the-components", ok and got is evs[0][1]["result"] and _same_list(evs[0][1]["items"], parts))


def _grid_size(case, env):
    """(Grid object fields, expected height, expected width)"""
    if case.size == "own":
        h, w = sint("own_h"), sint("own_w")
        return dict(_height=h, _width=w), h, w
    return dict(_height=None, _width=None), attr(env, "height"), attr(env, "width")


@harness("C15", structural=True, cases=[dict(size="env", at="end"), dict(size="env", at="nonlist"), dict(size="env", at="list"), dict(size="own", at="list")])
def grid_serialize_steps(case):
    """Grid.serialize: None at the end of data / for a non-list; otherwise rows 0..height-1 are concatenated and the
    single list is handed to Seq(base, height*width).serialize at the caller's index; that answer is returned"""
    if CTX.mode != "sym":
        return
    idx, L, NR = sint("idx"), sint("len_data"), sint("n_rows")
    requires(And(L >= 0, idx >= 0, idx <= L, NR >= 0))
    requires(idx == L if case.at == "end" else idx < L)
    env = _env()
    fields, H, W = _grid_size(case, env)
    base = ItemList("base combinator")
    ROWLEN, ROWS = _z3.Function("ROWLEN", I, I), _z3.Function("ROWS", I, I, I)
    k_ = _z3.Int("k!r")

    class Rows(GhostVal):
        pv_pytype = "list"

        def pv_len(self):
            return NR

        def pv_getitem(self, y):
            if not bool((y >= 0) & (y < NR)):
                raise PyRaise(IndexError("list index out of range"))
            assume_fact(mk_bool(ROWLEN(_zint(y)) >= 0))
            return VList(None, ROWLEN(_zint(y)), _z3.Lambda([k_], ROWS(_zint(y), k_)), "ref")

    d = Rows()

    class Data(GhostVal):
        pv_pytype = "list"

        def pv_len(self):
            return L

        def pv_getitem(self, i):
            if not bool((i >= 0) & (i < L)):
                raise PyRaise(IndexError("list index out of range"))
            check("only-the-item-at-idx-is-read", i == idx)
            return d if case.at == "list" else 5

    data = Data()
    me = OBJ(PS, "Grid", _base=base, **fields)
    K = PS + "::Grid.serialize"
    cur, asked = {}, []

    def new_flat():
        r = VList([])
        r.havoc("ref")
        cur["flat"] = r
        return r

    def head(ns):
        return ns.d_flat.snapshot()

    def end(ns, flat0):
        y = ns.y
        check("rows-are-taken-in-order-from-0", And(y >= 0, y < H))
        rl = SInt(ROWLEN(_zint(y)))
        check("row-y-is-appended", length(ns.d_flat) == length(flat0) + rl)
        check("row-y-is-appended/content", forall_range(rl, lambda q: mk_bool(_z3.Select(ns.d_flat.arr, length(flat0).t + q.t) == ROWS(_zint(y), q.t))))
        check("earlier-items-untouched", forall_range(length(flat0), lambda q: mk_bool(_z3.Select(ns.d_flat.arr, q.t) == _z3.Select(flat0.arr, q.t))))

    def at_exit(ns):
        check("exactly-the-rows-0..height-1", ns.exit_index == ite(H > 0, H, 0))

    def seq_serialize(it, a, k):
        ans = None if bool(sbool_fresh("answer_is_none")) else (fresh_int("items_consumed"), SStr(_z3.String(CTX.fresh_name("text"))))
        asked.append((a, k, ans))
        return ans

    use_contract(PS + "::Seq.serialize", seq_serialize)
    loop_spec(K, 0, inv=_init_only(cur, lambda ns: [length(ns.d_flat) == 0]), modifies=["d_flat"], types={"d_flat": new_flat},
              at_head=head, at_end=end, at_exit=at_exit)
    o = call(REAL(PS, "Grid.serialize"), me, env, data, idx)
    if case.at != "list":
        check("None-at-the-end-of-data-or-for-a-non-list", And(not o.raised, o.value is None))
        check("Seq-is-not-asked", len(asked) == 0)
        return
    if o.raised:
        # a board value with fewer rows than the height has no result (IndexError)
        check("only-a-missing-row-raises", o.exc == "IndexError" and mk_bool(NR.t < H.t))
        return
    ok = len(asked) == 1 and "flat" in cur
    check("Seq-is-asked-once", ok)
    if not ok:
        return
    a, k, ans = asked[0]
    ok = len(a) == 4 and not k and isinstance(a[0], VObj)
    check("it-is-a-Seq-over-the-same-base-of-height*width-items", ok and attr(a[0], "_base") is base and attr(a[0], "_n") == H * W)
    check("asked-with-the-caller's-environment-and-index", ok and a[1] is env and a[3] == idx)
    ok = ok and is_list(a[2])
    check("about-a-list-with-ONE-item", ok and length(a[2]) == 1)
    if ok:
        flat = item(a[2], 0)
        check("which-is-the-concatenation-of-the-rows", flat is cur["flat"])
    check("and-its-answer-is-returned-unchanged", (o.value is None and ans is None) or _same_answer(o.value, ans))


@harness("C15", structural=True, cases=[dict(size="env"), dict(size="own")])
def grid_deserialize_steps(case):
    """Grid.deserialize: Seq(base, height*width).deserialize at the caller's index; None is passed on; otherwise the flat
    list of height*width items is cut into `height` rows with ret[i][j] = flat[i*width + j], result (chars, [rows])"""
    if CTX.mode != "sym":
        return
    idx = sint("idx")
    requires(idx >= 0)
    env, text = _env(), sstr("text")
    fields, H, W = _grid_size(case, env)
    requires(And(H >= 0, W >= 0))
    base = ItemList("base combinator")
    me = OBJ(PS, "Grid", _base=base, **fields)
    K = PS + "::Grid.deserialize"
    cur, asked, appended = {}, [], []
    flat = VList([])
    flat.havoc("ref")

    def seq_deserialize(it, a, k):
        if bool(sbool_fresh("answer_is_none")):
            ans = None
        else:
            # contract of Seq.deserialize (seq_deserialize_steps): one item, a list of exactly n = height*width items
            requires(length(flat) == H * W)
            ans = (fresh_int("chars_consumed"), mklist([flat]))
        asked.append((a, k, ans))
        return ans

    use_contract(PS + "::Seq.deserialize", seq_deserialize)
    watch("append", K, "ret", lambda ns, v: appended.append(v))

    def new_ret():
        r = VList([])
        r.havoc("ref")
        cur["ret"] = r
        return r

    def new_row():
        r = VList([])
        r.havoc("ref")
        return r

    def head_out(ns):
        cur["app"] = len(appended)
        return None

    def end_out(ns, token):
        i = ns.i
        new = appended[cur["app"]:]
        check("one-row-per-iteration", len(new) == 1 and new[0] is ns.row)
        check("the-row-has-width-items", length(ns.row) == W)
        check("row-i-is-the-slice-flat[i*width:(i+1)*width]", forall_range(W, lambda q: mk_bool(_z3.Select(_arr(ns.row), q.t) == _z3.Select(flat.arr, (i * W).t + q.t))))

    def row_inv(ns):
        return [ns.i >= 0, ns.i < H, length(ns.row) == ns.j,
                forall_range(ns.j, lambda q: mk_bool(_z3.Select(_arr(ns.row), q.t) == _z3.Select(flat.arr, (ns.i * W).t + q.t)), hint="q")]

    loop_spec(K, 0, inv=lambda ns: [length(ns.ret) == ns.i], modifies=["ret"], types={"ret": new_ret, "row": new_row, "j": "int"},
              at_head=head_out, at_end=end_out)
    loop_spec(K, 1, inv=row_inv, modifies=["row"], types={"row": new_row})
    o = call(REAL(PS, "Grid.deserialize"), me, env, text, idx)
    check("no-exception", not o.raised)
    if o.raised:
        return
    ok = len(asked) == 1
    check("Seq-is-asked-once", ok)
    if not ok:
        return
    a, k, ans = asked[0]
    ok = len(a) == 4 and not k and isinstance(a[0], VObj)
    check("it-is-a-Seq-over-the-same-base-of-height*width-items", ok and attr(a[0], "_base") is base and attr(a[0], "_n") == H * W)
    check("asked-about-the-caller's-text-at-the-caller's-index", ok and a[1] is env and a[2] is text and a[3] == idx)
    if ans is None:
        check("None-is-passed-on", o.value is None)
        return
    ok = isinstance(o.value, tuple) and len(o.value) == 2 and is_list(o.value[1]) and "ret" in cur
    check("result-is-a-pair-(characters,-[rows])", ok)
    if ok:
        check("characters-consumed-as-reported-by-Seq", o.value[0] == ans[0])
        check("one-item:-the-list-of-rows", length(o.value[1]) == 1 and item(o.value[1], 0) is cur["ret"])
        check("height-rows", length(cur["ret"]) == H)


# ------------------------------------------------------------------------------------------------ instances
def instance_coverage(ps, named):
    """which real combinator objects are carried by the chain  leaf contracts -> step contracts -> lean/Codecs.lean.
    `named`: list of (name, combinator object).  A composition is covered when it is built from Grid / Seq / OneOf over
    the leaves HexInt, Spaces, IntSpaces, MultiDigit, Dict (non-empty texts) and the alternatives of every OneOf have
    pairwise disjoint leading classes (checked for every character code; the classes are those proved by
    leaf_accepts_only).  Returns {name: "covered: <lemma>" | "not covered: <reason>"}; never a verdict on the property."""
    from contracts.c15_leaf_codecs import leading_class
    restricted = []

    def leaf_class(c):
        n = type(c).__name__
        if n == "HexInt":
            return leading_class("HexInt")
        if n == "Spaces":
            return leading_class("Spaces", offset=c._offset)
        if n == "IntSpaces":
            return leading_class("IntSpaces", max_int=c._max_int, max_num_spaces=c._max_num_spaces)
        if n == "MultiDigit":
            return leading_class("MultiDigit", base=c._base, digits=c._digits)
        if n == "Dict":
            if any((not isinstance(a, str)) or len(a) == 0 for a in c._after):
                return None
            if any(a != b and (a.startswith(b) or b.startswith(a)) for a in c._after for b in c._after):
                return None
            return leading_class("Dict", after=list(c._after))
        if n == "YajilinClue" and type(c).__module__.endswith("puzzle.yajilin"):
            # contracts/c16_yajilin_clue.py: round trip on the domain "??" / direction + number 0..15, first character 0..4
            restricted.append("clue numbers 0..15")
            return lambda code: 48 <= code <= 52
        return None

    def item_level(c):
        """(ok, reason, class) for something used as the base of a Seq / Grid"""
        n = type(c).__name__
        if n == "OneOf":
            classes = []
            for ch in c._choices:
                cl = leaf_class(ch)
                if cl is None:
                    return False, "alternative %s has no leaf contract" % type(ch).__name__, None
                classes.append(cl)
            codes = list(range(0, 0x250))
            for i in range(len(classes)):
                for j in range(i + 1, len(classes)):
                    both = [k for k in codes if classes[i](k) and classes[j](k)]
                    if both:
                        return False, "alternatives %d and %d share the leading character %r" % (i, j, chr(both[0])), None
            return True, "oneOf_RTg", (lambda k: any(cl(k) for cl in classes))
        cl = leaf_class(c)
        if cl is None:
            return False, "%s has no leaf contract" % n, None
        return True, "leaf", cl

    out = {}
    for name, c in named:
        n = type(c).__name__
        if n in ("Grid", "Seq"):
            del restricted[:]
            ok, why, _ = item_level(c._base)
            dom = (" on the domain " + ", ".join(sorted(set(restricted)))) if restricted else ""
            out[name] = ("covered%s: %s_RT over %s, problem_roundtrip" % (dom, n.lower(), why)) if ok else "not covered: " + why
        else:
            out[name] = "not covered: top-level %s (bounded only)" % n
    return out
