"""C01 — contracts of Z3Backend.__init__ / add_constraint / solve (K3, K4 of DESIGN.md section 2/C01).

Together with the per-operator translation contract (c01_z3_convert.py) these carry find_answer through the z3 back end:
  * __init__: every BoolVar/IntVar of the list gets its own z3 constant of the matching sort, stored under the
    variable's id; the constants are pairwise distinct (distinct names: kind letter + position);
  * add_constraint: the translated constraints are appended in order (pointwise), earlier ones untouched;
  * solve: the assertions handed to z3 are exactly lo <= x and x <= hi for every IntVar (append-site
    obligations + completeness per variable) and the translated constraints; False is returned only when z3
    says unsat (an `unknown` must not be reported as unsatisfiable) and then no sol is written; otherwise True
    and every variable's sol is the model value of ITS OWN constant, a Python bool for a BoolVar and an int for
    an IntVar.
Assumed (z3py): Bool/Int build a constant of that name and sort, two constants are the same iff name and sort
agree; Solver.add/check/model, ModelRef.__getitem__, is_true, as_long behave as documented; str(int) is injective.
Precondition (type invariant of Solver.variables): ids are pairwise distinct; every element is a BoolVar or IntVar.
"""
import z3 as _z3

from pyvc.api import *
from pyvc.values import VList, HostFn, HostModule, GhostVal, NONE_SENTINEL as NONE
from pyvc.sym import _zint, zstr
from pyvc.hostmodels import UF

ZB = "cspuz/backend/z3.py"
CE = ZB + "::_convert_expr"
I, S, B = _z3.IntSort(), _z3.StringSort(), _z3.BoolSort()


class GDict(GhostVal):
    """dict int -> object reference, abstract view (HAS: key present, VAL: stored reference)"""
    pv_pytype = "dict"

    def __init__(self, tag):
        self.HAS = _z3.Array(CTX.fresh_name("has_" + tag), I, B)
        self.VAL = _z3.Array(CTX.fresh_name("val_" + tag), I, I)

    def pv_setitem(self, k, v):
        if not isinstance(v, SRef):
            raise OutOfSubset("non-reference stored in the variable table")
        self.HAS = _z3.Store(self.HAS, _zint(k), _z3.BoolVal(True))
        self.VAL = _z3.Store(self.VAL, _zint(k), v.t)

    def pv_getitem(self, k):
        if not CTX.branch(_z3.Select(self.HAS, _zint(k))):
            raise PyRaise(KeyError("variable id"))
        return SRef(_z3.Select(self.VAL, _zint(k)))


class World:
    def __init__(self):
        self.n = sint("n_var")
        requires(self.n >= 0)
        k_ = _z3.Int("k!w")
        self.variables = VList(None, self.n.t, _z3.Lambda([k_], k_), "ref")
        self.KIND = _z3.Function("KIND", I, I)       # 0 BoolVar, 1 IntVar
        self.ID = _z3.Function("ID", I, I)
        self.LO = _z3.Function("LO", I, I)
        self.HI = _z3.Function("HI", I, I)
        self.BT = _z3.Function("z3_Bool", S, I)      # the constant z3.Bool(name)
        self.IT = _z3.Function("z3_Int", S, I)       # the constant z3.Int(name)
        self.CT = _z3.Function("TRANSLATION", I, I)  # contract result of _convert_expr
        self.MV = _z3.Function("MODEL_VALUE", I, I)  # value of a constant in the model z3 returned
        self.sol = _z3.Array("sol0", I, I)
        self.sol_is_bool = _z3.Array("solb0", I, B)
        self.sol_writes = 0
        q, r = _z3.Int("q!w"), _z3.Int("r!w")
        CTX.assume(_z3.ForAll([q], _z3.Implies(_z3.And(q >= 0, q < self.n.t), _z3.Or(self.KIND(q) == 0, self.KIND(q) == 1))))
        CTX.assume(_z3.ForAll([q, r], _z3.Implies(_z3.And(q >= 0, q < self.n.t, r >= 0, r < self.n.t, q != r), self.ID(q) != self.ID(r))))
        from pyvc.values import _elem_wrap, _elem_unwrap
        w = self

        def getattr_(ref, name):
            if name == "id":
                return SInt(w.ID(ref.t))
            if name == "lo":
                return SInt(w.LO(ref.t))
            if name == "hi":
                return SInt(w.HI(ref.t))
            raise OutOfSubset("attribute " + name)

        def setattr_(ref, name, val):
            if name != "sol":
                raise OutOfSubset("attribute " + name)
            isb = isinstance(val, (bool, SBool))
            z = _zint(val + 0) if isb else _zint(val)
            if z is None:
                raise OutOfSubset("sol value %r" % (val,))
            w.sol = _z3.Store(w.sol, ref.t, z)
            w.sol_is_bool = _z3.Store(w.sol_is_bool, ref.t, _z3.BoolVal(isb))
            w.sol_writes += 1

        def isinstance_(ref, cls):
            if cls.name == "BoolVar":
                return SBool(w.KIND(ref.t) == 0)
            if cls.name == "IntVar":
                return SBool(w.KIND(ref.t) == 1)
            if cls.name == "Expr":
                return True
            return False

        ghost("sref_getattr", getattr_)
        ghost("sref_setattr", setattr_)
        ghost("sref_isinstance", isinstance_)

    def const_of(self, k, scheme):
        """the z3 constant of variable number k: z3.Bool / z3.Int (by kind) named <prefix of that kind> + decimal
        of the position (or of the id); scheme = (by_id, bool_prefix, int_prefix) as found by the probe"""
        by_id, pb, pi = scheme
        x = self.ID(k) if by_id else k
        nm = lambda prefix: _z3.Concat(_z3.StringVal(prefix), UF["str_int"](x))
        return _z3.If(self.KIND(k) == 0, self.BT(nm(pb)), self.IT(nm(pi)))

    def table_ok(self, d, n, scheme):
        """every variable below n has its own constant of the matching sort under its id"""
        return forall_range(n, lambda j: mk_bool(_z3.And(_z3.Select(d.HAS, self.ID(j.t)),
                                                         _z3.Select(d.VAL, self.ID(j.t)) == self.const_of(j.t, scheme))), hint="q")


def _proves(cond):
    CTX.solver.push()
    CTX.solver.add(_z3.Not(cond))
    r = CTX.solver.check()
    CTX.solver.pop()
    return r == _z3.unsat


def _naming_scheme(w):
    """how the constructor names its constants: found by running the real __init__ on the concrete list
    [BoolVar id 7, IntVar id 9]: names are <prefix> + position ("..0", "..1") or <prefix> + id ("..7", "..9").
    Any such scheme is injective per sort (z3 identifies a constant by name and sort)."""
    EX = "cspuz/expr.py"
    Op = CLS(EX, "Op")
    vb = OBJ(EX, "BoolVar", op=attr(Op, "VAR"), operands=mklist([]), id=7)
    vi = OBJ(EX, "IntVar", op=attr(Op, "VAR"), operands=mklist([]), id=9, lo=0, hi=1)
    vb2 = OBJ(EX, "BoolVar", op=attr(Op, "VAR"), operands=mklist([]), id=11)
    vi2 = OBJ(EX, "IntVar", op=attr(Op, "VAR"), operands=mklist([]), id=13, lo=0, hi=1)
    with override_global(ZB, "z3", z3_module(w, [], "sat")):
        o = call(construct, CLS(ZB, "Z3Backend"), mklist([vb, vi, vb2, vi2]))
    if o.raised:
        raise OutOfSubset("probe of the naming scheme raised %s" % o.exc)
    d = attr(o.value, "variables_dict")
    try:
        tb, ti, tb2, ti2 = (interp().getitem(d, k) for k in (7, 9, 11, 13))
    except PyRaise:
        raise OutOfSubset("probe: constants are not stored under the variables' ids")

    def name(t, fn, what):
        if isinstance(t, SRef) and t.t.decl().eq(fn) and _z3.is_string_value(t.t.arg(0)):
            return t.t.arg(0).as_string()
        if isinstance(t, SRef) and t.t.decl().eq(w.BT if fn is w.IT else w.IT):
            check("probe:" + what + "-gets-a-constant-of-its-own-sort", False)
            raise PathEnd("wrong sort")
        raise OutOfSubset("probe: constant is not a z3.Bool/z3.Int of a literal name")

    nb, ni, nb2, ni2 = name(tb, w.BT, "BoolVar"), name(ti, w.IT, "IntVar"), name(tb2, w.BT, "BoolVar"), name(ti2, w.IT, "IntVar")
    check("probe:two-BoolVars-get-different-constants", nb != nb2)
    check("probe:two-IntVars-get-different-constants", ni != ni2)
    if nb == nb2 or ni == ni2:
        raise PathEnd("shared constant")
    if nb.endswith("0") and ni.endswith("1") and nb2.endswith("2") and ni2.endswith("3"):
        return (False, nb[:-1], ni[:-1])
    if nb.endswith("7") and ni.endswith("9") and nb2.endswith("11") and ni2.endswith("13"):
        return (True, nb[:-1], ni[:-1])
    raise OutOfSubset("constants are named neither by position nor by id (%r, %r, %r, %r)" % (nb, ni, nb2, ni2))


class Bound:
    def __init__(self, term, sense, value):
        self.term, self.sense, self.value = term, sense, value


class Z3Solver(GhostVal):
    def __init__(self, w, log, outcome):
        self.w, self.log, self.outcome = w, log, outcome

    def pv_getattr(self, name):
        if name == "add":
            return HostFn(lambda it, a, k: self.log.append(("add", list(a))), "Solver.add", raw=True)
        if name == "check":
            return HostFn(lambda it, a, k: self.outcome, "Solver.check", raw=True)
        if name == "model":
            def model(it, a, k):
                if self.outcome != "sat":
                    raise PyRaise(_z3.Z3Exception("model is not available"))
                self.log.append(("model",))
                return Z3Model(self.w)
            return HostFn(model, "Solver.model", raw=True)
        if name == "set":
            return HostFn(lambda it, a, k: None, "Solver.set", raw=True)
        raise OutOfSubset("z3.Solver.%s" % name)


class Z3Model(GhostVal):
    def __init__(self, w):
        self.w = w

    def pv_getitem(self, k):
        if not isinstance(k, SRef):
            raise OutOfSubset("model lookup of a non-constant")
        return ModelValue(self.w, k)


class ModelValue(GhostVal):
    def __init__(self, w, const):
        self.w, self.const = w, const

    def pv_getattr(self, name):
        if name == "as_long":
            return HostFn(lambda it, a, k: SInt(self.w.MV(self.const.t)), "IntNumRef.as_long", raw=True)
        raise OutOfSubset("model value .%s" % name)


def z3_module(w, log, outcome):
    def f_bool(it, a, k):
        return SRef(w.BT(zstr(a[0])))

    def f_int(it, a, k):
        return SRef(w.IT(zstr(a[0])))

    def f_solver(it, a, k):
        log.append(("Solver",))
        return Z3Solver(w, log, outcome)

    def f_is_true(it, a, k):
        v = a[0]
        if not isinstance(v, ModelValue):
            raise OutOfSubset("is_true of %r" % (v,))
        return SBool(w.MV(v.const.t) != 0)

    fns = dict(Bool=f_bool, Int=f_int, Solver=f_solver, is_true=f_is_true)
    attrs = {n: HostFn(f, "z3." + n, raw=True) for n, f in fns.items()}
    attrs.update(sat="sat", unsat="unsat", unknown="unknown")
    return HostModule("z3", attrs)


def _compare(op, a, b):
    """lo <= x / x <= hi on a z3 constant builds the corresponding bound (z3py operator overloads)"""
    flip = {"LtE": "GtE", "GtE": "LtE", "Lt": "Gt", "Gt": "Lt", "Eq": "Eq", "NotEq": "NotEq"}
    if isinstance(a, SRef) and not isinstance(b, SRef):
        return Bound(a, op, b)
    if isinstance(b, SRef) and not isinstance(a, SRef):
        return Bound(b, flip[op], a)
    return NotImplemented


@harness("C01")
def backend_init(case):
    """each variable gets its own constant of the matching sort under its id; constants pairwise distinct"""
    if CTX.mode != "sym":
        return
    w = World()
    K = ZB + "::Z3Backend.__init__"
    box = {}
    scheme = _naming_scheme(w)

    def havoc(ns):
        d = GDict("vd")
        box["d"] = d
        replace_object(ns, attr(ns.self, "variables_dict"), d)      # local aliases of the table included

    def inv(ns):
        d = box.get("d")
        if d is None:
            return [ns.id_last == 0]
        return [ns.id_last == ns.idx, w.table_ok(d, ns.idx, scheme)]

    loop_spec(K, 0, inv=inv, modifies=["id_last"], types={"id_last": "int", "v": "opaque"}, ghost_havoc=havoc)
    with override_global(ZB, "z3", z3_module(w, [], "sat")):
        o = call(construct, CLS(ZB, "Z3Backend"), w.variables)
    check("no-exception", not o.raised)
    if o.raised:
        return
    d = attr(o.value, "variables_dict")
    if not isinstance(d, GDict):
        requires(w.n == 0)
        check("no-variables-no-constants", True)
        return
    check("every-variable-has-its-own-constant-of-the-matching-sort-under-its-id", w.table_ok(d, w.n, scheme))
    check("no-constraints-yet", length(attr(o.value, "converted_constraints")) == 0)


@harness("C01", group="lemma")
def constants_pairwise_distinct(case):
    """the names kind-letter + position are pairwise distinct, so two variables never share a z3 constant of the
    same sort (z3 identifies constants by name and sort)"""
    if CTX.mode != "sym":
        return
    j, k = sint("j"), sint("k")
    requires(And(j >= 0, k >= 0, j != k))
    dj, dk = UF["str_int"](j.t), UF["str_int"](k.t)
    assume_fact(mk_bool(dj != dk))      # str(int) is injective
    for a in "bi":
        for b in "bi":
            na, nb = _z3.Concat(_z3.StringVal(a), dj), _z3.Concat(_z3.StringVal(b), dk)
            check("names-differ-%s%s" % (a, b), mk_bool(na != nb))


def _backend(w):
    d = GDict("vd")
    q = _z3.Int("q!b")
    CTX.assuming = getattr(CTX, "assuming", 0) + 1
    try:
        CTX.assume(w.table_ok(d, w.n, (False, 'b', 'i')).t)     # either scheme gives the same facts to the callers (own constant, right sort)
    finally:
        CTX.assuming -= 1
    nc = sint("n_cons")
    requires(nc >= 0)
    cons = VList.symbolic("cons0", "ref", nc)
    be = OBJ(ZB, "Z3Backend", variables=w.variables, variables_dict=d, converted_constraints=cons)
    return be, d, cons, nc


@harness("C01", cases=[dict(form=f) for f in ("list", "single")])
def add_constraint(case):
    if CTX.mode != "sym":
        return
    w = World()
    be, d, cons, nc = _backend(w)
    before = cons.snapshot()

    def conv(it, a, k):
        check("translation-uses-this-backends-variable-table", a[1] is d)
        if not isinstance(a[0], SRef):
            raise OutOfSubset("translation of a non-reference")
        return SRef(w.CT(a[0].t))

    use_contract(CE, conv)
    if case.form == "list":
        m = sint("m")
        requires(m >= 0)
        k_ = _z3.Int("k!e")
        exprs = VList(None, m.t, _z3.Lambda([k_], 5000000 + k_), "ref")
        o = call(REAL(ZB, "Z3Backend.add_constraint"), be, exprs)
        check("no-exception", not o.raised)
        if o.raised:
            return
        after = attr(be, "converted_constraints")
        check("length-grows-by-the-number-of-constraints", length(after) == nc + m)
        check("earlier-translations-untouched", forall_range(nc, lambda k: mk_bool(_z3.Select(after.arr, k.t) == _z3.Select(before.arr, k.t))))
        check("new-entry-k-is-the-translation-of-constraint-k", forall_range(m, lambda k: mk_bool(_z3.Select(after.arr, nc.t + k.t) == w.CT(5000000 + k.t))))
    else:
        o = call(REAL(ZB, "Z3Backend.add_constraint"), be, SRef(_z3.IntVal(5000000)))
        check("no-exception", not o.raised)
        if o.raised:
            return
        after = attr(be, "converted_constraints")
        check("length-grows-by-one", length(after) == nc + 1)
        check("earlier-translations-untouched", forall_range(nc, lambda k: mk_bool(_z3.Select(after.arr, k.t) == _z3.Select(before.arr, k.t))))
        check("new-entry-is-the-translation", mk_bool(_z3.Select(after.arr, nc.t) == w.CT(5000000)))


class _FakeZ3Solver:
    """native stand-in for z3.Solver whose check() gives up (replay of the `unknown` case)"""

    def add(self, *a):
        pass

    def set(self, *a, **k):
        pass

    def check(self):
        return "unknown"

    def model(self):
        raise RuntimeError("model is not available")


def _native_unknown():
    """run the real Z3Backend.solve natively against a z3 whose check() returns unknown"""
    import types
    fake = types.SimpleNamespace(Solver=_FakeZ3Solver, sat="sat", unsat="unsat", unknown="unknown",
                                 Bool=lambda n: ("Bool", n), Int=lambda n: ("Int", n), is_true=lambda v: bool(v))
    BoolVar = CLS("cspuz/expr.py", "BoolVar")
    vs = [BoolVar(0), BoolVar(1)]
    with override_global(ZB, "z3", fake):
        be = construct(CLS(ZB, "Z3Backend"), vs)
        o = call(REAL(ZB, "Z3Backend.solve"), be)
    check("unknown-is-not-reported-as-unsatisfiable", o.raised or o.value is not False)
    check("unknown-is-not-reported-as-satisfiable", o.raised or o.value is not True)


CONF = "cspuz/configuration.py"


@harness("C01", cases=[dict(outcome=o) for o in ("sat", "unsat", "unknown")],
         native_inputs=lambda case: [dict(timeout=t) for t in (None, 1)] if case.outcome == "unknown" else [])
def solve(case):
    """assertions = bounds of every IntVar + the translated constraints; False only on unsat; sol from the model"""
    if CTX.mode == "native":
        if case.outcome == "unknown":
            cfg = GLOBAL(CONF, "config")
            old = cfg.solver_timeout
            cfg.solver_timeout = CTX.native_inputs.get("timeout")
            try:
                _native_unknown()
            finally:
                cfg.solver_timeout = old
        return
    if CTX.mode == "interp":
        raise OutOfSubset("native-only stand-in for z3")
    if CTX.mode != "sym":
        return
    # the process-wide configuration object, should the back end consult it: arbitrary time budget
    tmo = None if SBool(_z3.Bool("timeout_unset")) else sint("solver_timeout_ms")
    if tmo is not None:
        requires(tmo >= 1)
    cfgobj = OBJ(CONF, "Config", default_backend="z3", backend_path=None, csugar_binding=None, use_graph_primitive=False,
                 use_graph_division_primitive=False, solver_timeout=tmo)
    CTX.overrides[(CONF, "config")] = cfgobj
    w = World()
    be, d, cons, nc = _backend(w)
    log = []
    K = ZB + "::Z3Backend.solve"
    ghost("sref_compare", _compare)
    mark = {}

    def head0(ns):
        mark["n"] = len(log)
        return None

    def end0(ns, token):
        adds = [e for e in log[mark["n"]:] if e[0] == "add"]
        i = _zint(ns.idx) if hasattr(ns, "idx") else None
        var = ns.var
        if not isinstance(var, SRef):
            raise OutOfSubset("loop variable")
        k = var.t
        isint = w.KIND(k) == 1
        if not adds:
            check("every-IntVar-gets-its-bounds", mk_bool(_z3.Not(isint)))
            return
        check("only-IntVars-get-bounds", mk_bool(isint))
        bounds = [b for e in adds for b in e[1]]
        check("bounds-are-bounds", all(isinstance(b, Bound) for b in bounds))
        if not all(isinstance(b, Bound) for b in bounds):
            return
        lows = [b for b in bounds if b.sense == "GtE"]
        highs = [b for b in bounds if b.sense == "LtE"]
        check("one-lower-and-one-upper-bound", len(lows) == 1 and len(highs) == 1 and len(bounds) == 2)
        if len(lows) == 1 and len(highs) == 1:
            own = _z3.Select(d.VAL, w.ID(k))
            check("bounds-on-the-variables-own-constant", mk_bool(_z3.And(lows[0].term.t == own, highs[0].term.t == own)))
            check("lower-bound-is-lo", mk_bool(_zint(lows[0].value) == w.LO(k)))
            check("upper-bound-is-hi", mk_bool(_zint(highs[0].value) == w.HI(k)))

    loop_spec(K, 0, inv=lambda ns: [], modifies=[], types={"var": "opaque", "var_z3": "opaque"}, at_head=head0, at_end=end0)
    sol0, solb0 = w.sol, w.sol_is_bool

    def havoc1():
        w.sol = _z3.Array(CTX.fresh_name("sol"), I, I)
        w.sol_is_bool = _z3.Array(CTX.fresh_name("solb"), I, B)

    def inv1(ns):
        def ok(j):
            own = _z3.Select(d.VAL, w.ID(j))
            return _z3.And(_z3.Select(w.sol_is_bool, j) == (w.KIND(j) == 0),
                           _z3.Select(w.sol, j) == _z3.If(w.KIND(j) == 0, _z3.If(w.MV(own) != 0, 1, 0), w.MV(own)))
        return [forall_range(ns.idx, lambda j: mk_bool(ok(j.t)), hint="q")]

    loop_spec(K, 1, inv=inv1, modifies=[], types={"var": "opaque", "var_z3": "opaque"}, ghost_havoc=havoc1)
    with override_global(ZB, "z3", z3_module(w, log, case.outcome)):
        o = call(REAL(ZB, "Z3Backend.solve"), be)
    if case.outcome == "unknown":
        # z3 gave up: neither answer is justified; the only acceptable outcomes are an exception or not returning False/True silently
        check("unknown-is-not-reported-as-unsatisfiable", o.raised or o.value is not False)
        check("unknown-is-not-reported-as-satisfiable", o.raised or o.value is not True)
        return
    check("no-exception", not o.raised)
    if o.raised:
        return
    solvers = [e for e in log if e[0] == "Solver"]
    check("one-fresh-z3-solver-per-solve", len(solvers) == 1)
    lists = [e for e in log if e[0] == "add" and len(e[1]) == 1 and isinstance(e[1][0], VList)]
    check("translated-constraints-asserted-once", len(lists) == 1)
    if len(lists) == 1:
        L = lists[0][1][0]
        check("all-translated-constraints-asserted", And(length(L) == nc, forall_range(nc, lambda k: mk_bool(_z3.Select(L.arr, k.t) == _z3.Select(cons.arr, k.t)))))
    if case.outcome == "unsat":
        check("unsat-returns-False", o.value is False)
        check("unsat-writes-no-sol", w.sol_writes == 0 and w.sol is sol0)
    else:
        check("sat-returns-True", o.value is True)

        def ok(j):
            own = _z3.Select(d.VAL, w.ID(j))
            return _z3.And(_z3.Select(w.sol_is_bool, j) == (w.KIND(j) == 0),
                           _z3.Select(w.sol, j) == _z3.If(w.KIND(j) == 0, _z3.If(w.MV(own) != 0, 1, 0), w.MV(own)))
        check("every-sol-is-the-model-value-of-its-own-constant-with-the-right-type", forall_range(w.n, lambda j: mk_bool(ok(j.t))))
