"""C16 — the yajilin clue leaf (cspuz/puzzle/yajilin.py::YajilinClue), the one custom leaf among the puzzle codecs.

  "??"                      is written "0." and read back as "??"
  d + str(n), d in ^v<>     is written str(dir) + hex(n)[2:]; for 0 <= n <= 15 that is two characters and is read back
                            from pre + s + rest at len(pre) as d + str(n), consuming exactly 2 characters
  n >= 16                   is NOT claimed: hex(n)[2:] has two or more digits and the reader takes one (known finding)
  ".."                      is refused (the blank; Spaces writes it)
  reader                    answers None unless two characters are left and the first is one of 0 1 2 3 4

str(int), int(str), int(str, 16), hex are uninterpreted; the facts used are ground instances validated natively
(c15_leaf_codecs.facts_validation, decimal_facts_validation, and the digit table below).
"""
import z3 as _z3

from pyvc.api import *
from pyvc.hostmodels import UF
from pyvc.values import GhostVal
from contracts.c15_leaf_codecs import hex_facts, _env, _concat_lemmas

YJ = "cspuz/puzzle/yajilin.py"
DIRS = {"^": 1, "v": 2, "<": 3, ">": 4}


def digit_facts_validation():
    n = 0
    for k in range(0, 5):
        assert str(k) == "01234"[k] and int("01234"[k]) == k
        n += 1
    for v in range(16):
        assert int(str(v)) == v and len(hex(v)[2:]) == 1 and int(hex(v)[2:], 16) == v
        n += 1
    return n


def _digit_facts():
    for k in range(0, 5):
        c = _z3.StringVal(str(k))
        assume_fact(mk_bool(_z3.And(UF["str_int"](_z3.IntVal(k)) == c, UF["int10_ok"](c), UF["int10"](c) == k)))


def _clue_inputs(case):
    for n in (0, 1, 9, 10, 15):
        for pre in ("", "a", "3."):
            for rest in ("", "b", "0."):
                yield dict(n=n, pre=pre, rest=rest)


@harness("C16", cases=[dict(d=d) for d in "^v<>"], native_inputs=_clue_inputs)
def yajilin_clue_roundtrip(case):
    obj = OBJ(YJ, "YajilinClue")
    env = _env()
    n, pre, rest = sint("n"), sstr("pre"), sstr("rest")
    requires(And(n >= 0, n <= 15))
    if CTX.mode == "sym":
        _digit_facts()
        D = UF["str_int"](n.t)
        # ground instances: int(str(n)) == n; hex(n) == "0x" + one hex digit h with int(h, 16) == n; str(n) keeps no
        # trace of the direction character (value[1:] is str(n))
        assume_fact(mk_bool(_z3.And(UF["int10_ok"](D), UF["int10"](D) == n.t, _z3.Length(D) >= 1)))
        hex_facts(n)
        value = SStr(_z3.Concat(_z3.StringVal(case.d), D))
    else:
        value = case.d + str(n)
    if CTX.mode == "sym":
        # the clue sits at an arbitrary position of an arbitrary list of cell texts
        n_items, pos = sint("len"), sint("idx")
        requires(And(pos >= 0, pos < n_items))

        class Cells(GhostVal):
            """the list is only read at the position asked for"""
            pv_pytype = "list"

            def pv_len(self):
                return n_items

            def pv_getitem(self, i):
                check("only-the-item-at-idx-is-read", i == pos)
                return value
        data = Cells()
    else:
        data, pos = mklist(["..", value]), 1
    o = call(REAL(YJ, "YajilinClue.serialize"), obj, env, data, pos)
    check("serialize-accepts", And(not o.raised, o.value is not None))
    if o.raised or o.value is None:
        return
    k, s = o.value
    check("one-item-consumed", k == 1)
    check("two-characters", length(s) == 2)
    text = pre + s + rest
    if CTX.mode == "sym":
        for j in (0, 1):
            for f in _concat_lemmas(text.t, pre.t, s.t if isinstance(s, SStr) else _z3.StringVal(s), rest.t, _z3.IntVal(j)):
                lemma("C15/concat_substring_lemma", mk_bool(f))
    o2 = call(REAL(YJ, "YajilinClue.deserialize"), obj, env, text, length(pre))
    check("deserialize-no-exception", not o2.raised)
    if o2.raised:
        return
    check("deserialize-accepts-own-output", o2.value is not None)
    if o2.value is None:
        return
    m, items = o2.value
    check("consumes-exactly-the-produced-text", m == 2)
    check("the-clue-is-back", is_list(items) and length(items) == 1 and item(items, 0) == value)


@harness("C16")
def yajilin_clue_specials(case):
    """'??' <-> '0.', '..' refused, the end of the data refused"""
    if CTX.mode != "sym":
        return
    obj = OBJ(YJ, "YajilinClue")
    env = _env()
    pre, rest = sstr("pre"), sstr("rest")
    o = call(REAL(YJ, "YajilinClue.serialize"), obj, env, mklist(["??", ".."]), 0)
    check("the-unknown-clue-is-written-0.", And(not o.raised, o.value == (1, "0.")))
    o = call(REAL(YJ, "YajilinClue.serialize"), obj, env, mklist(["??", ".."]), 1)
    check("the-blank-is-refused", And(not o.raised, o.value is None))
    o = call(REAL(YJ, "YajilinClue.serialize"), obj, env, mklist(["??", ".."]), 2)
    check("the-end-of-the-data-is-refused", And(not o.raised, o.value is None))
    text = pre + "0." + rest
    for j in (0, 1):
        for f in _concat_lemmas(text.t, pre.t, _z3.StringVal("0."), rest.t, _z3.IntVal(j)):
            lemma("C15/concat_substring_lemma", mk_bool(f))
    o2 = call(REAL(YJ, "YajilinClue.deserialize"), obj, env, text, length(pre))
    check("0.-is-read-back-as-the-unknown-clue", And(not o2.raised, o2.value is not None))
    if not o2.raised and o2.value is not None:
        m, items = o2.value
        check("two-characters-consumed", m == 2)
        check("one-item-??", is_list(items) and length(items) == 1 and item(items, 0) == "??")


@harness("C16")
def yajilin_clue_accepts_only(case):
    """`Lead`: None unless two characters are left and the first is one of 0..4 (disjoint from Spaces('..', 'a'), whose
    class is the letters)"""
    if CTX.mode != "sym":
        return
    obj = OBJ(YJ, "YajilinClue")
    env = _env()
    text, idx = sstr("text"), sint("idx")
    requires(And(idx >= 0, idx <= length(text)))
    _digit_facts()
    o = call(REAL(YJ, "YajilinClue.deserialize"), obj, env, text, idx)
    if o.raised:
        return          # (exception safety is C17's contract)
    if o.value is not None:
        code = _z3.StrToCode(_z3.SubString(text.t, idx.t, 1))
        check("two-characters-are-left", idx + 1 < length(text))
        check("the-first-character-is-0..4", mk_bool(_z3.And(code >= 48, code <= 52)))
        check("two-characters-are-consumed", o.value[0] == 2)
