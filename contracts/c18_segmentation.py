"""C18 — the counting half of the segmentation builder's invariant (cspuz/generator/segmentation.py), proved for
every board and every bound configuration:

  candidates(current): for a VALID current value (a partition of the board whose block count and block sizes lie
      inside the configured bounds) EVERY proposed update (exclude, append)
        * names one or two distinct existing blocks,
        * keeps the number of blocks inside [min_num_blocks, max_num_blocks],
        * introduces only blocks whose size lies inside [min_block_size, max_block_size],
        * conserves the number of cells (what is appended has as many cells as what is excluded);
      the block-id table the proposals are computed from holds, for every cell, the index of the block containing it;
  _copy_with_update(previous, update): the result is previous without the excluded positions (order kept),
      followed by the appended blocks; its length is len(previous) - #excluded + #appended; with
      use_deepcopy the kept blocks are copies; previous itself is only read.
  split_block(block): the contract `candidates` uses (two non-empty parts whose sizes add up to len(block)) is
      discharged on the real function (harness split_block_parts): seeds distinct on leaving the draw loop, every
      cell appended to exactly one part, the seeds' own cells to different parts.  Only the nested bfs is by contract.
Connectivity of the new blocks (the nested bfs of split_block, _is_connected) rests on sets, dicts, deque and
recursion outside the subset: by contract here (bfs returns a table over the block that is 0 exactly at the seed;
_is_connected returns a bool), decided exhaustively on small boards by the bounded tier.
Ghost view of `current`: SIZE(i) = number of cells of block i, BID(y, x) = index of the block containing (y, x).
"""
import z3 as _z3

from pyvc.api import *
from pyvc.values import VList, HostFn, GhostVal, AbstractSeq, PointwiseSeq
from pyvc.sym import _zint

SEG = "cspuz/generator/segmentation.py"
K = SEG + "::SegmentationBuilder2D.candidates"
I = _z3.IntSort()


class World:
    def __init__(self):
        self.h, self.w = sint("height"), sint("width")
        self.n = sint("num_blocks")
        self.minN, self.maxN = sint("min_num_blocks"), sint("max_num_blocks")
        self.minS, self.maxS = sint("min_block_size"), sint("max_block_size")
        requires(And(self.h >= 1, self.w >= 1))
        requires(And(self.minN >= 1, self.minN <= self.n, self.n <= self.maxN))
        requires(And(self.minS >= 1, self.minS <= self.maxS))
        self.SIZE = _z3.Function("SIZE", I, I)
        self.BID = _z3.Function("BID", I, I, I)

    def size_fact(self, i):
        """ground instance of the precondition: block i has an admissible size"""
        assume_fact(mk_bool(_z3.And(self.SIZE(_zint(i)) >= self.minS.t, self.SIZE(_zint(i)) <= self.maxS.t)))

    def cell_fact(self, y, x):
        """ground instance of the precondition: every cell of the board lies in exactly one existing block"""
        b = self.BID(_zint(y), _zint(x))
        assume_fact(mk_bool(_z3.And(b >= 0, b < self.n.t)))


class Block(GhostVal):
    """a block seen through its size; `index` is its position in `current` when it is one of the current blocks"""
    pv_pytype = "list"

    def __init__(self, w, size, index=None, label="block"):
        self.w, self.size, self.index, self.label = w, size, index, label

    def pv_len(self):
        return self.size

    def pv_binop(self, opname, other, reflected):
        if opname != "Add":
            self._no("operator " + opname)
        if isinstance(other, Block):
            return Block(self.w, self.size + other.size, None, "concatenation")
        if isinstance(other, VList) and other.is_concrete():
            return Block(self.w, self.size + len(other.items), None, "block plus cells")
        self._no("concatenation with %r" % (other,))

    def pv_iter(self):
        w = self.w

        def cell():
            y, x = fresh_int("cy"), fresh_int("cx")
            requires(And(y >= 0, y < w.h, x >= 0, x < w.w))
            if self.index is not None:
                assume_fact(mk_bool(w.BID(y.t, x.t) == _zint(self.index)))      # a cell of block i has block id i
            return (y, x)
        return AbstractSeq(cell, "cells of a block", length=self.size)

    def pv_comprehension(self, it, e, scope):
        """[p for p in block if p != c]: the block without the cell c; c occurs exactly once in block i iff BID(c) = i
        (validity of the partition), otherwise not at all"""
        import ast
        g = e.generators[0]
        ok = (len(e.generators) == 1 and len(g.ifs) == 1 and isinstance(g.target, ast.Name) and isinstance(e.elt, ast.Name)
              and e.elt.id == g.target.id and isinstance(g.ifs[0], ast.Compare) and len(g.ifs[0].ops) == 1
              and isinstance(g.ifs[0].ops[0], ast.NotEq) and isinstance(g.ifs[0].left, ast.Name) and g.ifs[0].left.id == g.target.id)
        if not ok or self.index is None:
            raise OutOfSubset("comprehension over a block other than `[p for p in block if p != cell]`")
        c = it.eval(g.ifs[0].comparators[0], scope)
        if not (isinstance(c, tuple) and len(c) == 2):
            raise OutOfSubset("filter cell is not a pair")
        inside = mk_bool(self.w.BID(_zint(c[0]), _zint(c[1])) == _zint(self.index))
        return Block(self.w, self.size - ite(inside, 1, 0), None, "block minus a cell")

    def pv_deepcopy(self):
        return Block(self.w, self.size, None, "copy")


class Blocks(GhostVal):
    """`current`: n blocks, block i has SIZE(i) cells"""
    pv_pytype = "list"

    def __init__(self, w):
        self.w = w

    def pv_len(self):
        return self.w.n

    def pv_getitem(self, i):
        if not isinstance(i, (int, SInt)):
            raise PyRaise(TypeError("list indices must be integers"))
        if not bool((i >= 0) & (i < self.w.n)):
            # a negative index would silently address another block: never intended by the code under contract
            check("block-index-in-range", False)
            raise PathEnd("block index out of range")
        self.w.size_fact(i)
        return Block(self.w, SInt(self.w.SIZE(_zint(i))), i, "current[%s]" % (i,))

    def pv_iter(self):
        def one():
            i = fresh_int("bi")
            requires(And(i >= 0, i < self.w.n))
            return self.pv_getitem(i)
        return AbstractSeq(one, "blocks", length=self.w.n)


class Table(GhostVal):
    """block_id[y][x]"""
    pv_pytype = "list"

    def __init__(self, w):
        self.w = w

    def pv_getitem(self, y):
        if not bool((y >= 0) & (y < self.w.h)):
            check("table-row-in-range", False)
            raise PathEnd("row out of range")
        return Row(self.w, y)


class Row(GhostVal):
    pv_pytype = "list"

    def __init__(self, w, y):
        self.w, self.y = w, y

    def pv_getitem(self, x):
        if not bool((x >= 0) & (x < self.w.w)):
            check("table-column-in-range", False)
            raise PathEnd("column out of range")
        self.w.cell_fact(self.y, x)
        return SInt(self.w.BID(_zint(self.y), _zint(x)))

    def pv_setitem(self, x, v):
        check("table-entry-is-the-index-of-the-block-containing-the-cell",
              And((x >= 0) & (x < self.w.w), v == SInt(self.w.BID(_zint(self.y), _zint(x)))))


class PairSet(GhostVal):
    """adjacent_pairs: every member was added at one of the two add sites, where it satisfied `member_ok`"""
    pv_pytype = "set"

    def __init__(self, w):
        self.w = w

    def member_ok(self, i, j):
        w = self.w
        return And(i >= 0, i < j, j < w.n, SInt(w.SIZE(_zint(i))) + SInt(w.SIZE(_zint(j))) <= w.maxS)

    def pv_getattr(self, name):
        if name == "add":
            def add(it, a, k):
                p = a[0]
                check("merge-pair-is-an-ordered-pair-of-distinct-blocks-whose-sizes-fit", isinstance(p, tuple) and len(p) == 2 and self.member_ok(p[0], p[1]))
            return HostFn(add, "set.add", raw=True)
        self._no("set." + name)

    def pv_iter(self):
        def one():
            i, j = fresh_int("pi"), fresh_int("pj")
            requires(self.member_ok(i, j))
            return (i, j)
        return AbstractSeq(one, "adjacent pairs")


def _builder(w):
    return OBJ(SEG, "SegmentationBuilder2D", height=w.h, width=w.w, min_num_blocks=w.minN, max_num_blocks=w.maxN,
               min_block_size=w.minS, max_block_size=w.maxS, allow_unmet_constraints_first=False, initial_blocks=None)


@harness("C18")
def candidates_keep_the_bounds(case):
    if CTX.mode != "sym":
        return
    w = World()
    cur = Blocks(w)
    proposals = []

    def on_append(ns, value):
        proposals.append(value)
        ok = isinstance(value, tuple) and len(value) == 2 and isinstance(value[0], VList) and isinstance(value[1], VList) \
            and value[0].is_concrete() and value[1].is_concrete()
        if not ok:
            raise OutOfSubset("an update is not a pair (list of indices, list of blocks)")
        excl, app = value[0].items, value[1].items
        check("excludes-one-or-two-blocks", len(excl) in (1, 2))
        check("excluded-indices-exist", And(*[And(i >= 0, i < w.n) for i in excl]))
        if len(excl) == 2:
            check("excluded-blocks-are-distinct", excl[0] != excl[1])
        for i in excl:
            w.size_fact(i)
        if not all(isinstance(b, Block) for b in app):
            raise OutOfSubset("appended value is not a block")
        new_n = w.n - len(excl) + len(app)
        check("block-count-stays-inside-the-bounds", And(new_n >= w.minN, new_n <= w.maxN))
        for k, b in enumerate(app):
            check("new-block-%d-size-inside-the-bounds" % k, And(b.size >= w.minS, b.size <= w.maxS))
        total_new = sum((b.size for b in app[1:]), app[0].size) if app else 0
        total_old = sum((SInt(w.SIZE(_zint(i))) for i in excl[1:]), SInt(w.SIZE(_zint(excl[0]))))
        check("cells-are-conserved", total_new == total_old)

    watch("append", K, "ret", on_append)

    def split(it, args, kwargs):
        b = args[0]
        if not isinstance(b, Block):
            raise OutOfSubset("split_block argument")
        check("pre:split_block:at-least-two-cells", b.size >= 2)
        sa = fresh_int("size_a")
        requires(And(sa >= 1, sa <= b.size - 1))
        return (Block(w, sa, None, "split a"), Block(w, b.size - sa, None, "split b"))

    use_contract(SEG + "::split_block", split)
    use_contract(SEG + "::_is_connected", lambda it, a, k: sbool(CTX.fresh_name("donor_stays_connected")))
    T = {"block_id": lambda: Table(w), "ret": "list:ref", "adjacent_pairs": lambda: PairSet(w), "i": "int", "j": "int", "x": "int", "y": "int",
         "block": "opaque", "block_a": "opaque", "block_b": "opaque", "x2": "int", "y2": "int"}
    tbl = {"block_id": lambda: Table(w)}
    loop_spec(K, 0, inv=lambda ns: [], modifies=["block_id"], types=dict(T))
    loop_spec(K, 1, inv=lambda ns: [], modifies=["block_id"], types=dict(T))
    for o in (2, 3):
        loop_spec(K, o, inv=lambda ns: [], modifies=["adjacent_pairs"], types=dict(T))
    for o in (4, 5, 6, 7, 8):
        loop_spec(K, o, inv=lambda ns: [], modifies=["ret"], types={k: v for k, v in T.items() if k not in ("block_id", "adjacent_pairs")})
    o = call(REAL(SEG, "SegmentationBuilder2D.candidates"), _builder(w), cur)
    check("no-exception", not o.raised)


# ------------------------------------------------------------------------------------------------ _copy_with_update
class Prev(GhostVal):
    """`previous`: n blocks identified by their position"""
    pv_pytype = "list"

    def __init__(self, n, reads):
        self.n, self.reads = n, reads

    def pv_len(self):
        return self.n

    def pv_getitem(self, i):
        if not bool((i >= 0) & (i < self.n)):
            raise PyRaise(IndexError("list index out of range"))
        self.reads.append(i)
        return ("block", i, "original")


@harness("C18", cases=[dict(excl=e, deep=d) for e in (1, 2) for d in (False, True)])
def copy_with_update(case):
    """result = previous minus the excluded positions (order kept) ++ appended; previous is only read"""
    if CTX.mode != "sym":
        return
    n = sint("n")
    requires(n >= 1)
    e1 = sint("e1")
    requires(And(e1 >= 0, e1 < n))
    excl = [e1]
    if case.excl == 2:
        e2 = sint("e2")
        requires(And(e2 >= 0, e2 < n, e2 != e1))
        excl.append(e2)
    reads = []
    prev = Prev(n, reads)
    na = sint("n_append")
    requires(na >= 0)
    k_ = _z3.Int("k!ap")
    app = VList(None, na.t, _z3.Lambda([k_], 6000000 + k_), "ref")
    copies = []

    def deepcopy_(it, a, k):
        copies.append(a[0])
        v = a[0]
        return ("block", v[1], "copy") if isinstance(v, tuple) else v

    from pyvc.values import HostFn as _HF
    with override_global(SEG, "deepcopy", _HF(deepcopy_, "deepcopy", raw=True)):
        # (the result is a lazily evaluated list: the checks run while the deepcopy stand-in is still installed)
        b = OBJ(SEG, "SegmentationBuilder2D", height=1, width=1)
        o = call(REAL(SEG, "SegmentationBuilder2D._copy_with_update"), b, prev, (mklist(excl), app), case.deep)
        check("no-exception", not o.raised)
        if o.raised:
            return
        r = o.value
        kept = n - len(excl)
        check("length-is-kept-plus-appended", length(r) == kept + na)
        k = fresh_int("k")
        requires(And(k >= 0, k < kept))
        v = interp().getitem(r, k)
        lo = e1 if case.excl == 1 else ite(e1 < e2, e1, e2)
        if case.excl == 1:
            src = k + ite(k >= e1, 1, 0)
        else:
            hi = ite(e1 < e2, e2, e1)
            s1 = k + ite(k >= lo, 1, 0)
            src = s1 + ite(s1 >= hi, 1, 0)
        ok = isinstance(v, tuple) and v[0] == "block"
        check("kept-entry-is-a-block-of-previous", ok)
        if ok:
            check("kept-entries-are-the-non-excluded-blocks-in-order", v[1] == src)
            check("kept-block-is-copied-exactly-when-asked", v[2] == ("copy" if case.deep else "original"))
        q = fresh_int("q")
        requires(And(q >= 0, q < na))
        check("appended-blocks-follow-in-order", same(interp().getitem(r, kept + q), SRef(_z3.IntVal(6000000) + q.t)))


# ------------------------------------------------------------------------------------------------ split_block
class Dist(GhostVal):
    """the dict returned by the nested bfs(seed): DIST(which, position of the cell in `block`)"""
    pv_pytype = "dict"

    def __init__(self, fn, which, n):
        self.fn, self.which, self.n = fn, which, n

    def pv_getitem(self, cell):
        if not (isinstance(cell, tuple) and cell and cell[0] == "cell"):
            raise OutOfSubset("distance table asked for something that is not a cell of the block")
        return SInt(self.fn(_zint(self.which), _zint(cell[1])))


class Cells(GhostVal):
    """`block`: n pairwise distinct cells, each identified by its position in the list"""
    pv_pytype = "list"
    pv_indexed = True

    def __init__(self, n):
        self.n = n

    def pv_len(self):
        return self.n

    def pv_getitem(self, i):
        if not bool((i >= 0) & (i < self.n)):
            raise PyRaise(IndexError("list index out of range"))
        return ("cell", i)

    def pv_iter(self):
        return self


@harness("C18")
def split_block_parts(case):
    """discharges the contract `candidates` relies on: for a block of n >= 2 distinct cells split_block returns two
    lists whose lengths add up to n and are both >= 1 (the cell of seed_a goes to the first part, that of seed_b to the
    second), every cell of the block going to exactly one part in block order.  The nested bfs is taken by contract:
    a table defined on every cell of the block with distance 0 exactly at the seed and >= 0 elsewhere (needs a connected
    block and the breadth-first search itself: sets, dict and deque, outside the subset; bounded tier)."""
    if CTX.mode != "sym":
        return
    n = sint("n")
    requires(n >= 2)
    block = Cells(n)
    DIST = _z3.Function("DIST", I, I, I)
    seeds = []

    def bfs(it, a, k):
        s = a[0]
        if not (isinstance(s, tuple) and s[0] == "cell"):
            raise OutOfSubset("bfs seed is not a cell of the block")
        which = len(seeds)
        seeds.append(s[1])
        return Dist(DIST, which, n)

    def dist_fact(which, pos):
        d = DIST(_zint(which), _zint(pos))
        assume_fact(mk_bool(_z3.And(d >= 0, (d == 0) == (_zint(pos) == _zint(seeds[which])))))

    use_contract(SEG + "::split_block.<locals>.bfs", bfs)
    SB = SEG + "::split_block"
    loop_spec(SB, 0, inv=lambda ns: [], modifies=[], types={"seed_a": "int", "seed_b": "int"})
    def head(ns):
        dist_fact(0, ns.idx)
        dist_fact(1, ns.idx)
        return (length(ns.block_a), length(ns.block_b))

    def end(ns, tok):
        la, lb = tok
        check("every-cell-goes-to-exactly-one-part",
              Or(And(length(ns.block_a) == la + 1, length(ns.block_b) == lb), And(length(ns.block_a) == la, length(ns.block_b) == lb + 1)))

    def inv(ns):
        sa, sb = ns.seed_a, ns.seed_b
        return [length(ns.block_a) + length(ns.block_b) == ns.idx,
                implies(sa < ns.idx, length(ns.block_a) >= 1),
                implies(sb < ns.idx, length(ns.block_b) >= 1)]

    last = 1   # loops of nested functions are not counted
    loop_spec(SB, last, inv=inv, modifies=["block_a", "block_b"], types={"block_a": "list:ref", "block_b": "list:ref", "b": "opaque", "da": "int", "db": "int"},
              at_head=head, at_end=end)
    with override_global(SEG, "srandom", _rand_module()), override_global(SEG, "set", HostFn(lambda it, a, k: Opaque("block_set"), "set", raw=True)):
        o = call(REAL(SEG, "split_block"), block)
    check("no-exception", not o.raised)
    ra, rb = item(o.value, 0), item(o.value, 1)
    check("sizes-add-up", length(ra) + length(rb) == n)
    check("first-part-not-empty", length(ra) >= 1)
    check("second-part-not-empty", length(rb) >= 1)


def _rand_module():
    from pyvc.values import HostModule

    def randint(it, a, k):
        lo, hi = a
        r = fresh_int("rand")
        requires(And(r >= lo, r <= hi))
        return r

    return HostModule("srandom", {"randint": HostFn(randint, "srandom.randint", raw=True)})
