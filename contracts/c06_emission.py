"""C06 — emission contract of _active_edges_single_cycle (rank/root encoding) and the lemma that carries it to the
property.

Proved here by pyvc for every graph (ghost incidence lists, row i = entries (NB(i,k), IE(i,k))):
  * created: the flag array is_passed (returned), one array of n ranks with domain [0, n-1], the flag array is_root;
  * for every vertex i exactly two constraints:
        count_true([x_{IE(i,k)} for every entry k of row i])  ==  cond(is_passed[i], 2, 0)
        is_passed[i] -> count_true([x_{IE(i,k)} & (rank[NB(i,k)] >= rank[i]) for every entry k]) <= cond(is_root[i], 2, 1)
  * after the loop: count_true(is_root) == 1.
For a loop-free graph every edge at i is one entry of row i (representation invariant, C04/graph_add_edge), so this is
the schema of lean/Encoders.lean, namespace C06, where `enc_iff_onecycle` proves (graphs with at least one vertex):
satisfiable  <=>  every vertex meets 0 or 2 active edges and any two visited vertices are joined along active edges
(no active edge, or exactly one simple cycle), and `passed_iff_visited`: is_passed is true exactly at the visited
vertices.  A graph with no vertex at all is outside the lemma: the real function refuses it (Solver.int_array(0, 0, -1) raises ValueError).
"""
import z3 as _z3

from pyvc.api import *
from pyvc.values import VList, HostFn, GhostVal, AbstractSeq, PointwiseSeq, Opaque
from pyvc.sym import _zint
from contracts.c04_graph_plumbing import IncView, EdgeList
from contracts.c09_emission import T, Ranks, _is_rank

GR = "cspuz/graph.py"
SOLV = "cspuz/solver.py"
K = GR + "::_active_edges_single_cycle"
I = _z3.IntSort()


class F(T):
    """a flag variable: supports .cond(a, b) and .then(x)"""

    def pv_getattr(self, name):
        if name == "cond":
            return HostFn(lambda it, a, k: T("cond", self, *a), "cond", raw=True)
        if name == "then":
            return HostFn(lambda it, a, k: T("then", self, *a), "then", raw=True)
        raise OutOfSubset("flag .%s" % name)


class FlagArr(GhostVal):
    def __init__(self, name, n):
        self.name, self.n = name, n

    def pv_len(self):
        return self.n

    def pv_getitem(self, j):
        if not bool((j >= 0) & (j < self.n)):
            check("flag-index-is-a-vertex", False)
            raise PathEnd("flag index")
        return F("flag", self.name, j)


def _is_flag(t, name, j):
    return isinstance(t, T) and t.tag == "flag" and t.parts[0] == name and t.parts[1] == j


@harness("C06", structural=True)
def single_cycle_emission(case):
    if CTX.mode != "sym":
        return
    n, m = sint("n"), sint("m")
    requires(And(n >= 0, m >= 0))
    LEN, NB, IE = _z3.Function("LEN", I, I), _z3.Function("NB", I, I, I), _z3.Function("IE", I, I, I)
    inc = IncView(n, m, LEN, NB, IE)
    orig = inc.pv_getitem

    def row(v):
        r = orig(v)
        base = r.pv_getitem

        def getitem(k):
            t = base(k)
            assume_fact(mk_bool(_z3.And(t[0].t >= 0, t[0].t < n.t)))
            return t
        r.pv_getitem = getitem
        return r

    inc.pv_getitem = row
    g = OBJ(GR, "Graph", num_vertices=n, edges=EdgeList(m, _z3.Function("U", I, I), _z3.Function("V", I, I)), incident_edges=inc)
    k_ = _z3.Int("k!x")
    xs = VList(None, m.t, _z3.Lambda([k_], 7000000 + k_), "ref")
    created, posted, arrays = [], [], []

    def int_array(it, a, k):
        created.append(("int",) + tuple(a[1:]))
        return Ranks(a[1])

    def bool_array(it, a, k):
        created.append(("bool",) + tuple(a[1:]))
        arr = FlagArr("passed" if not arrays else "root", a[1])
        arrays.append(arr)
        return arr

    use_contract(SOLV + "::Solver.int_array", int_array)
    use_contract(SOLV + "::Solver.bool_array", bool_array)
    use_contract(SOLV + "::Solver.ensure", lambda it, a, k: posted.extend(a[1:]))
    use_contract("cspuz/constraints.py::count_true", lambda it, a, k: T("count_true", *a))
    ghost("sref_binop", lambda op, a, b: T("bin:" + op, a, b))
    solver = OBJ(SOLV, "Solver", variables=mklist([]), is_answer_key=mklist([]), constraints=mklist([]))
    mark = {}

    def x_of(e):
        return SRef(_z3.IntVal(7000000) + _zint(e))

    def head(ns):
        mark["p"] = len(posted)
        return None

    def end(ns, token):
        i = ns.i
        newp = posted[mark["p"]:]
        check("two-constraints-per-vertex", len(newp) == 2)
        if len(newp) != 2:
            return
        c1, c2 = newp
        ln = SInt(LEN(_zint(i)))
        k = fresh_int("entry")
        requires(And(k >= 0, k < ln))
        e_k, j_k = SInt(IE(_zint(i), k.t)), SInt(NB(_zint(i), k.t))
        # degree constraint
        ok = isinstance(c1, T) and c1.tag == "cmp:Eq" and len(c1.parts) == 2
        check("first-constraint-is-an-equation", ok)
        if ok:
            a, b = c1.parts
            if not (isinstance(a, T) and a.tag == "count_true"):
                a, b = b, a
            ok1 = isinstance(a, T) and a.tag == "count_true" and len(a.parts) == 1
            check("degree-is-a-count-over-the-incident-entries", ok1 and length(a.parts[0]) == ln)
            if ok1:
                it_k = interp().getitem(a.parts[0], k)
                check("degree-counts-the-activity-of-each-incident-edge", isinstance(it_k, SRef) and same(it_k, x_of(e_k)))
            check("degree-is-2-if-passed-else-0", isinstance(b, T) and b.tag == "cond" and _is_flag(b.parts[0], "passed", i) and b.parts[1] == 2 and b.parts[2] == 0)
        # orientation constraint
        ok = isinstance(c2, T) and c2.tag == "then" and _is_flag(c2.parts[0], "passed", i) and len(c2.parts) == 2
        check("second-constraint-is-conditional-on-passed", ok)
        if ok:
            body = c2.parts[1]
            ok2 = isinstance(body, T) and body.tag == "cmp:LtE" and isinstance(body.parts[0], T) and body.parts[0].tag == "count_true" and len(body.parts[0].parts) == 1
            check("it-bounds-a-count-over-the-incident-entries", ok2 and length(body.parts[0].parts[0]) == ln)
            if ok2:
                it_k = interp().getitem(body.parts[0].parts[0], k)
                okk = isinstance(it_k, T) and it_k.tag == "bin:BitAnd" and len(it_k.parts) == 2
                check("counted-item-is-a-conjunction", okk)
                if okk:
                    a, b = it_k.parts
                    if not isinstance(a, SRef):
                        a, b = b, a
                    check("counted-item-says-the-edge-is-active", isinstance(a, SRef) and same(a, x_of(e_k)))
                    ge = isinstance(b, T) and ((b.tag == "cmp:GtE" and _is_rank(b.parts[0], j_k) and _is_rank(b.parts[1], i)) or
                                               (b.tag == "cmp:LtE" and _is_rank(b.parts[0], i) and _is_rank(b.parts[1], j_k)))
                    check("counted-item-says-the-neighbour's-rank-is-not-smaller", ge)
                bound = body.parts[1]
                check("bound-is-2-for-the-root-else-1", isinstance(bound, T) and bound.tag == "cond" and _is_flag(bound.parts[0], "root", i) and bound.parts[1] == 2 and bound.parts[2] == 1)

    loop_spec(K, 1, inv=lambda ns: [ns.i >= 0], modifies=[], types={"degree": "opaque"}, at_head=head, at_end=end)      # loop 0 is the native-route loop
    o = call(REAL(GR, "_active_edges_single_cycle"), solver, xs, g, False)
    check("no-exception", not o.raised)
    if o.raised:
        return
    check("arrays-created:passed-flags,ranks-[0,n-1],root-flags", len(created) == 3 and [c[0] for c in created] == ["bool", "int", "bool"]
          and And(created[0][1] == n, created[1][1] == n, created[1][2] == 0, created[1][3] == n - 1, created[2][1] == n))
    tail = posted[-1:] if posted else []
    ok = len(tail) == 1 and isinstance(tail[0], T) and tail[0].tag == "cmp:Eq" and isinstance(tail[0].parts[0], T) and tail[0].parts[0].tag == "count_true" \
        and tail[0].parts[1] == 1 and len(tail[0].parts[0].parts) == 1 and len(arrays) == 2 and tail[0].parts[0].parts[0] is arrays[1]
    check("finally-exactly-one-root", ok)
    check("returns-the-passed-flags", len(arrays) == 2 and o.value is arrays[0])


# ------------------------------------------------------------------------------------------------ primitive routes
def _prim_world():
    n, m = sint("n"), sint("m")
    requires(And(n >= 0, m >= 0))
    LEN, NB, IE = _z3.Function("LEN", I, I), _z3.Function("NB", I, I, I), _z3.Function("IE", I, I, I)
    inc = IncView(n, m, LEN, NB, IE)
    g = OBJ(GR, "Graph", num_vertices=n, edges=EdgeList(m, _z3.Function("U", I, I), _z3.Function("V", I, I)), incident_edges=inc)
    k_ = _z3.Int("k!x")
    xs = VList(None, m.t, _z3.Lambda([k_], 7000000 + k_), "ref")
    return n, m, LEN, NB, IE, g, xs


def _degree_of(t, i, LEN, IE):
    """t is count_true([x_{IE(i,k)} for every entry k of row i])"""
    ok = isinstance(t, T) and t.tag == "count_true" and len(t.parts) == 1
    if not ok:
        return False
    ln = SInt(LEN(_zint(i)))
    if not bool(length(t.parts[0]) == ln):
        return False
    k = fresh_int("entry")
    requires(And(k >= 0, k < ln))
    it_k = interp().getitem(t.parts[0], k)
    return isinstance(it_k, SRef) and bool(same(it_k, SRef(_z3.IntVal(7000000) + IE(_zint(i), k.t))))


@harness("C06", structural=True, cases=[dict(what="cycle"), dict(what="path")])
def primitive_route_emission(case):
    """native routes: degree rules per vertex (cycle: degree == cond(passed, 2, 0); path: passed -> degree 1 or 2, not passed
    -> degree 0, and exactly two vertices of degree 1 unless no edge is active), then the connectivity of the active edges
    is handed to the native operator on Graph.line_graph() (whose contract and operand layout are proved in
    c04_graph_plumbing.py); this is the reference predicate `degrees + all active edges in one component` itself"""
    if CTX.mode != "sym":
        return
    n, m, LEN, NB, IE, g, xs = _prim_world()
    posted, arrays, handed, ends = [], [], {}, []
    lg = OBJ(GR, "Graph", num_vertices=m, edges=Opaque("line graph edges"), incident_edges=Opaque("line graph rows"))

    def bool_array(it, a, k):
        arr = FlagArr("passed", a[1])
        arrays.append(arr)
        return arr

    def avc(it, a, k):
        handed["args"], handed["kw"] = a, k
        return None

    use_contract(SOLV + "::Solver.bool_array", bool_array)
    use_contract(SOLV + "::Solver.ensure", lambda it, a, k: posted.extend(a[1:]))
    use_contract("cspuz/constraints.py::count_true", lambda it, a, k: T("count_true", *a))
    use_contract(GR + "::Graph.line_graph", lambda it, a, k: lg if a[0] is g else Opaque("other line graph"))
    use_contract(GR + "::_active_vertices_connected", avc)
    ghost("sref_unop", lambda op, a: T("un:" + op, a))
    solver = OBJ(SOLV, "Solver", variables=mklist([]), is_answer_key=mklist([]), constraints=mklist([]))
    fn = "_active_edges_single_cycle" if case.what == "cycle" else "_active_edges_single_path"
    K2 = GR + "::" + fn
    if case.what == "path":
        watch("append", K2, "is_endpoint", lambda ns, v: ends.append(v))
    mark = {}

    def head(ns):
        mark["p"], mark["e"] = len(posted), len(ends)
        return None

    def end(ns, token):
        i = ns.i
        new = posted[mark["p"]:]
        if case.what == "cycle":
            check("one-degree-rule-per-vertex", len(new) == 1)
            if len(new) == 1:
                c = new[0]
                ok = isinstance(c, T) and c.tag == "cmp:Eq" and len(c.parts) == 2
                check("it-is-an-equation", ok)
                if ok:
                    a, b = c.parts
                    if not (isinstance(a, T) and a.tag == "count_true"):
                        a, b = b, a
                    check("of-the-number-of-active-incident-edges", _degree_of(a, i, LEN, IE))
                    check("with-2-if-passed-else-0", isinstance(b, T) and b.tag == "cond" and _is_flag(b.parts[0], "passed", i) and b.parts[1] == 2 and b.parts[2] == 0)
            return
        check("two-degree-rules-per-vertex", len(new) == 2)
        if len(new) == 2:
            c1, c2 = new
            ok = isinstance(c1, T) and c1.tag == "then" and len(c1.parts) == 2 and _is_flag(c1.parts[0], "passed", i)
            check("passed->...", ok)
            if ok:
                body = c1.parts[1]
                okb = isinstance(body, T) and body.tag == "bin:BitOr" and len(body.parts) == 2
                check("passed->degree-1-or-2", okb and sorted(
                    [p.parts[1] if isinstance(p, T) and p.tag == "cmp:Eq" and _degree_of(p.parts[0], i, LEN, IE) else -1 for p in body.parts]) == [1, 2])
            ok = isinstance(c2, T) and c2.tag == "then" and len(c2.parts) == 2 and isinstance(c2.parts[0], T) and c2.parts[0].tag == "un:Invert" \
                and _is_flag(c2.parts[0].parts[0], "passed", i)
            check("not-passed->...", ok)
            if ok:
                body = c2.parts[1]
                check("not-passed->degree-0", isinstance(body, T) and body.tag == "cmp:Eq" and _degree_of(body.parts[0], i, LEN, IE) and body.parts[1] == 0)
        newe = ends[mark["e"]:]
        check("one-end-point-indicator-per-vertex", len(newe) == 1)
        if len(newe) == 1:
            e_ = newe[0]
            check("end-point-means-degree-1", isinstance(e_, T) and e_.tag == "cmp:Eq" and _degree_of(e_.parts[0], i, LEN, IE) and e_.parts[1] == 1)

    types = {"degree": "opaque"}
    if case.what == "path":
        types["is_endpoint"] = "list:ref"
        loop_spec(K2, 0, inv=lambda ns: [ns.i >= 0, length(ns.is_endpoint) == ns.i], modifies=["is_endpoint"], types=types, at_head=head, at_end=end)
    else:
        loop_spec(K2, 0, inv=lambda ns: [ns.i >= 0], modifies=[], types=types, at_head=head, at_end=end)
    o = call(REAL(GR, fn), solver, xs, g, True)
    check("no-exception", not o.raised)
    if o.raised:
        return
    check("one-flag-per-vertex-is-created-and-returned", len(arrays) == 1 and bool(arrays[0].n == n) and o.value is arrays[0])
    if case.what == "path":
        check("posted-after-the-loop:the-end-point-rule", len(posted) == 1)
        if len(posted) == 1:
            c = posted[0]
            ok = isinstance(c, T) and c.tag == "bin:BitOr" and len(c.parts) == 2
            check("two-end-points-or-no-active-edge", ok)
            if ok:
                a, b = c.parts

                def two_ends(t):
                    return isinstance(t, T) and t.tag == "cmp:Eq" and isinstance(t.parts[0], T) and t.parts[0].tag == "count_true" \
                        and isinstance(t.parts[0].parts[0], VList) and bool(length(t.parts[0].parts[0]) == n) and t.parts[1] == 2

                def no_edge(t):
                    return isinstance(t, T) and t.tag == "cmp:Eq" and isinstance(t.parts[0], T) and t.parts[0].tag == "count_true" \
                        and t.parts[0].parts[0] is xs and t.parts[1] == 0
                check("two-end-points-or-no-active-edge/operands", (two_ends(a) and no_edge(b)) or (two_ends(b) and no_edge(a)))
    else:
        check("nothing-posted-after-the-loop", len(posted) == 0)
    ok = "args" in handed
    check("connectivity-is-handed-on", ok)
    if ok:
        a, k = handed["args"], handed["kw"]
        allargs = list(a) + [k.get(x) for x in ("acyclic", "use_graph_primitive") if x in k]
        check("of-the-edge-activities-on-the-line-graph,-native-operator,-no-acyclicity", len(a) >= 3 and a[0] is solver and a[1] is xs and a[2] is lg
              and k.get("acyclic", a[3] if len(a) > 3 else None) is False and k.get("use_graph_primitive", a[4] if len(a) > 4 else None) is True)
