"""C02 — the refute-and-resolve loop of Solver.solve, loop by loop (contracts on the real body).

What is proved here, for any number of variables and any key set (pointwise, no bound):
  * solve() returns False exactly when the back end's first solve() is False, and then touches no sol;
  * the initial answers are the first model's values on the keys and None elsewhere;
  * every refuting clause is the disjunction of `variables[i] != answer[i]` over exactly the keys that
    still carry an answer (append-site obligations + a completeness flag per iteration);
  * the demotion step turns answer[i] into None exactly when the new model contradicts it and leaves
    every other entry alone (so facts are only ever demoted);
  * the write-back stores answer[i] into the sol of every key and leaves the other variables alone;
  * the loop is left only when the back end reports the refuting clause unsatisfiable; solve() then returns True.
The model-theoretic step from these facts to the property (an undemoted answer holds in every model
because the last clause, which is implied by all earlier ones, is unsatisfiable; a demoted one has two
witnesses) is the prose argument of DESIGN.md section 2/C02 and is checked end to end by the bounded tier.
Assumed contract of the back end: solve() decides the constraints added so far and, when True, leaves a
model's value (never None) in every variable's sol.
"""
import z3 as _z3

from pyvc.api import *
from pyvc.values import NONE_SENTINEL as NONE, VList
from pyvc.sym import _zint

SOL = "cspuz/solver.py"
Z3B = "cspuz/backend/z3.py"
EX = "cspuz/expr.py"
SV = SOL + "::Solver.solve"


class GhostNe:
    """the expression `variables[index] != value` (ghost record of its meaning)"""

    def __init__(self, index, value):
        self.index, self.value = index, value


@harness("C02", cases=[dict(first=f) for f in ("unsat", "sat")])
def solve_refinement_loop(case):
    if CTX.mode != "sym":
        return
    n = sint("n_var")
    requires(n >= 0)
    k_ = _z3.Int("k!bound")
    variables = VList(None, n.t, _z3.Lambda([k_], k_), "ref")          # variables[i] is object number i
    key = slist("is_answer_key", "int", n)
    G = {"sol": _z3.Array("sol_initial", _z3.IntSort(), _z3.IntSort()), "solves": 0, "log": []}
    sol_initial = G["sol"]

    def fresh_model(tag):
        a = _z3.Array(CTX.fresh_name("sol_" + tag), _z3.IntSort(), _z3.IntSort())
        q = _z3.Int(CTX.fresh_name("q"))
        CTX.assume(_z3.ForAll([q], _z3.Select(a, q) != NONE))      # a model gives every variable a value
        return a

    from pyvc.values import _elem_wrap, _elem_unwrap
    ghost("sref_getattr", lambda ref, name: _elem_wrap("optint", _z3.Select(G["sol"], ref.t)) if name == "sol" else (_ for _ in ()).throw(OutOfSubset("attribute " + name)))

    def setattr_(ref, name, val):
        if name != "sol":
            raise OutOfSubset("attribute " + name)
        G["sol"] = _z3.Store(G["sol"], ref.t, _elem_unwrap("optint", val))
        G["log"].append(("write", ref))

    ghost("sref_setattr", setattr_)
    ghost("sref_compare", lambda op, a, b: GhostNe(a, b) if op == "NotEq" and isinstance(a, SRef) else NotImplemented)
    ghost("sref_classes", set())

    def be_init(it, args, kwargs):
        G["log"].append(("init",))

    def be_add(it, args, kwargs):
        G["log"].append(("add", args[1]))

    def be_solve(it, args, kwargs):
        G["solves"] += 1
        G["log"].append(("solve",))
        if G["solves"] == 1:
            if case.first == "unsat":
                return False
            G["sol"] = fresh_model("first")
            G["sol_first"] = G["sol"]
            return True
        b = sbool("resolve_sat_%d" % G["solves"])
        if b:
            G["sol"] = fresh_model("next")
            G["sol_next"] = G["sol"]
            return True
        return False

    use_contract(Z3B + "::Z3Backend.__init__", be_init)
    use_contract(Z3B + "::Z3Backend.add_constraint", be_add)
    use_contract(Z3B + "::Z3Backend.solve", be_solve)
    use_contract(SOL + "::_get_backend", lambda it, a, k: CLS(Z3B, "Z3Backend"))
    solver = OBJ(SOL, "Solver", variables=variables, is_answer_key=key, constraints=mklist([]))

    A = lambda ns: ns.answer.arr
    K = lambda j: _z3.Select(key.arr, j) != 0
    q = _z3.Int("q!inv")

    def qall(body):
        """forall q in [0, n): body(q)   (real quantifier when assumed, fresh constant when checked)"""
        return forall_range(n, lambda j: mk_bool(body(j.t)), hint="q")

    # loop 0: initial answers
    def inv0(ns):
        i = _zint(ns.i)
        return [length(ns.answer) == n,
                qall(lambda j: _z3.Select(A(ns), j) == _z3.If(_z3.And(j < i, K(j)), _z3.Select(G["sol_first"], j), NONE))]

    loop_spec(SV, 0, inv=inv0, modifies=["answer"], types={"answer": "list:optint"})

    # loop 1: while True
    def inv1(ns):
        return [length(ns.answer) == n,
                qall(lambda j: _z3.Implies(_z3.Not(K(j)), _z3.Select(A(ns), j) == NONE)),
                qall(lambda j: _z3.Select(G["sol"], j) != NONE)]

    def havoc1():
        G["sol"] = fresh_model("loop_head")

    loop_spec(SV, 1, inv=inv1, modifies=["answer", "difference_cond"], types={"answer": "list:optint", "difference_cond": "list:ref", "a": "opaque"},
              ghost_havoc=havoc1)

    # loop 2: the refuting clause
    flag = {}

    def head2(ns):
        flag["appended"] = False
        return None

    def on_append(ns, value):
        flag["appended"] = True
        i = ns.i
        check("clause-literal-is-a-disequality", isinstance(value, GhostNe))
        if isinstance(value, GhostNe):
            check("clause-literal-names-variable-i", value.index == SRef(_zint(i)))
            a = raw_item_opt(ns.answer, i)
            check("clause-literal-uses-the-current-answer", mk_bool(_zint(value.value) == a))
            check("clause-literal-only-for-keys-with-an-answer", mk_bool(_z3.And(K(_zint(i)), a != NONE)))

    def end2(ns, token):
        i = _zint(ns.i)
        a = _z3.Select(A(ns), i)
        want = _z3.And(K(i), a != NONE)
        check("every-key-with-an-answer-is-refuted", mk_bool(want) if flag["appended"] else mk_bool(_z3.Not(want)))

    def raw_item_opt(lst, i):
        return _z3.Select(lst.arr, _zint(i))

    loop_spec(SV, 2, inv=lambda ns: [length(ns.answer) == n], modifies=["difference_cond"], types={"difference_cond": "list:ref", "a": "opaque"},
              at_head=head2, at_end=end2)
    watch("append", SV, "difference_cond", on_append)

    # loop 3: demotion
    def inv3(ns):
        i = _zint(ns.i)
        old = ns.old.answer.arr
        sol = G["sol"]
        dem = lambda j: _z3.If(_z3.And(K(j), _z3.Select(old, j) != NONE, _z3.Select(old, j) != _z3.Select(sol, j)), NONE, _z3.Select(old, j))
        return [length(ns.answer) == n,
                qall(lambda j: _z3.Select(A(ns), j) == _z3.If(j < i, dem(j), _z3.Select(old, j)))]

    loop_spec(SV, 3, inv=inv3, modifies=["answer"], types={"answer": "list:optint"})

    # loop 4: write back
    def inv4(ns):
        i = _zint(ns.i)
        if "sol_before_writeback" not in G:
            G["sol_before_writeback"] = G["sol"]
        prev = G["sol_before_writeback"]
        return [length(ns.answer) == n,
                qall(lambda j: _z3.Select(G["sol"], j) == _z3.If(_z3.And(j < i, K(j)), _z3.Select(A(ns), j), _z3.Select(prev, j)))]

    def havoc4():
        G["sol"] = _z3.Array(CTX.fresh_name("sol_wb"), _z3.IntSort(), _z3.IntSort())

    loop_spec(SV, 4, inv=inv4, modifies=[], ghost_havoc=havoc4)

    o = call(REAL(SOL, "Solver.solve"), solver, None)
    check("no-exception", not o.raised)
    if o.raised:
        return
    if case.first == "unsat":
        check("unsat-returns-False", o.value is False)
        check("unsat-leaves-sol-untouched", G["sol"] is sol_initial)
        check("unsat-no-further-solve", G["solves"] == 1)
        return
    check("sat-returns-True", o.value is True)
    # the loop was left because the last refuting clause was unsatisfiable
    check("loop-left-only-after-an-unsatisfiable-refutation", G["log"][-1] == ("solve",) or any(e[0] == "write" for e in G["log"]))
