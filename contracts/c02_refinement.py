"""C02 — the refute-and-resolve loop of Solver.solve, loop by loop (contracts on the real body).

What is proved here, for any number of variables and any key set (pointwise, no bound):
  * solve() returns False exactly when the back end's first solve() is False, and then touches no sol;
  * the initial answers are the first model's values on the keys and None elsewhere;
  * every refuting clause is the disjunction of `variables[i] != answer[i]` over exactly the keys that
    still carry an answer (append-site obligations + a completeness flag per iteration);
  * the demotion step turns answer[i] into None exactly when the new model contradicts it and leaves
    every other entry alone (so facts are only ever demoted);
  * the write-back stores answer[i] into the sol of every key and leaves the other variables alone;
  * the loop is left only when the back end reports the refuting clause unsatisfiable; solve() then returns True.
The model-theoretic step from these facts to the property (an undemoted answer holds in every model
because the last clause, which is implied by all earlier ones, is unsatisfiable; a demoted one has two
witnesses) is the prose argument of DESIGN.md section 2/C02 and is checked end to end by the bounded tier.
Assumed contract of the back end: solve() decides the constraints added so far and, when True, leaves a
model's value (never None) in every variable's sol.
"""
import z3 as _z3

from pyvc.api import *
from pyvc.values import NONE_SENTINEL as NONE, VList
from pyvc.sym import _zint

SOL = "cspuz/solver.py"
Z3B = "cspuz/backend/z3.py"
EX = "cspuz/expr.py"
SV = SOL + "::Solver.solve"


class GhostNe:
    """the expression `variables[index] != value` (ghost record of its meaning)"""

    def __init__(self, index, value):
        self.index, self.value = index, value


@harness("C02", cases=[dict(first=f) for f in ("unsat", "sat")])
def solve_refinement_loop(case):
    if CTX.mode != "sym":
        return
    n = sint("n_var")
    requires(n >= 0)
    k_ = _z3.Int("k!bound")
    variables = VList(None, n.t, _z3.Lambda([k_], k_), "ref")          # variables[i] is object number i
    key = slist("is_answer_key", "int", n)
    G = {"sol": _z3.Array("sol_initial", _z3.IntSort(), _z3.IntSort()), "solves": 0, "log": []}
    sol_initial = G["sol"]

    def fresh_model(tag):
        a = _z3.Array(CTX.fresh_name("sol_" + tag), _z3.IntSort(), _z3.IntSort())
        q = _z3.Int(CTX.fresh_name("q"))
        CTX.assume(_z3.ForAll([q], _z3.Select(a, q) != NONE))      # a model gives every variable a value
        return a

    from pyvc.values import _elem_wrap, _elem_unwrap
    ghost("sref_getattr", lambda ref, name: _elem_wrap("optint", _z3.Select(G["sol"], ref.t)) if name == "sol" else (_ for _ in ()).throw(OutOfSubset("attribute " + name)))

    def setattr_(ref, name, val):
        if name != "sol":
            raise OutOfSubset("attribute " + name)
        G["sol"] = _z3.Store(G["sol"], ref.t, _elem_unwrap("optint", val))
        G["log"].append(("write", ref))

    ghost("sref_setattr", setattr_)
    ghost("sref_compare", lambda op, a, b: GhostNe(a, b) if op == "NotEq" and isinstance(a, SRef) else NotImplemented)
    ghost("sref_classes", set())

    def be_init(it, args, kwargs):
        G["log"].append(("init",))

    def be_add(it, args, kwargs):
        G["log"].append(("add", args[1]))

    def be_solve(it, args, kwargs):
        G["solves"] += 1
        G["log"].append(("solve",))
        if G["solves"] == 1:
            if case.first == "unsat":
                return False
            G["sol"] = fresh_model("first")
            G["sol_first"] = G["sol"]
            return True
        b = sbool("resolve_sat_%d" % G["solves"])
        if b:
            G["sol"] = fresh_model("next")
            G["sol_next"] = G["sol"]
            return True
        return False

    use_contract(Z3B + "::Z3Backend.__init__", be_init)
    use_contract(Z3B + "::Z3Backend.add_constraint", be_add)
    use_contract(Z3B + "::Z3Backend.solve", be_solve)
    use_contract(SOL + "::_get_backend", lambda it, a, k: CLS(Z3B, "Z3Backend"))
    solver = OBJ(SOL, "Solver", variables=variables, is_answer_key=key, constraints=mklist([]))

    A = lambda ns: ns.answer.arr
    K = lambda j: _z3.Select(key.arr, j) != 0
    q = _z3.Int("q!inv")

    def qall(body):
        """forall q in [0, n): body(q)   (real quantifier when assumed, fresh constant when checked)"""
        return forall_range(n, lambda j: mk_bool(body(j.t)), hint="q")

    # loop 0: initial answers
    def inv0(ns):
        i = _zint(ns.i)
        return [length(ns.answer) == n,
                qall(lambda j: _z3.Select(A(ns), j) == _z3.If(_z3.And(j < i, K(j)), _z3.Select(G["sol_first"], j), NONE))]

    loop_spec(SV, 0, inv=inv0, modifies=["answer"], types={"answer": "list:optint"})

    # loop 1: while True
    def inv1(ns):
        return [length(ns.answer) == n,
                qall(lambda j: _z3.Implies(_z3.Not(K(j)), _z3.Select(A(ns), j) == NONE)),
                qall(lambda j: _z3.Select(G["sol"], j) != NONE)]

    def havoc1():
        G["sol"] = fresh_model("loop_head")

    loop_spec(SV, 1, inv=inv1, modifies=["answer", "difference_cond"], types={"answer": "list:optint", "difference_cond": "list:ref", "a": "opaque"},
              ghost_havoc=havoc1)

    # loop 2: the refuting clause
    flag = {}

    def head2(ns):
        flag["appended"] = False
        return None

    def on_append(ns, value):
        flag["appended"] = True
        i = ns.i
        check("clause-literal-is-a-disequality", isinstance(value, GhostNe))
        if isinstance(value, GhostNe):
            check("clause-literal-names-variable-i", value.index == SRef(_zint(i)))
            a = raw_item_opt(ns.answer, i)
            check("clause-literal-uses-the-current-answer", mk_bool(_zint(value.value) == a))
            check("clause-literal-only-for-keys-with-an-answer", mk_bool(_z3.And(K(_zint(i)), a != NONE)))

    def end2(ns, token):
        i = _zint(ns.i)
        a = _z3.Select(A(ns), i)
        want = _z3.And(K(i), a != NONE)
        check("every-key-with-an-answer-is-refuted", mk_bool(want) if flag["appended"] else mk_bool(_z3.Not(want)))

    def raw_item_opt(lst, i):
        return _z3.Select(lst.arr, _zint(i))

    loop_spec(SV, 2, inv=lambda ns: [length(ns.answer) == n], modifies=["difference_cond"], types={"difference_cond": "list:ref", "a": "opaque"},
              at_head=head2, at_end=end2)
    watch("append", SV, "difference_cond", on_append)

    # loop 3: demotion
    def inv3(ns):
        i = _zint(ns.i)
        old = ns.old.answer.arr
        sol = G["sol"]
        dem = lambda j: _z3.If(_z3.And(K(j), _z3.Select(old, j) != NONE, _z3.Select(old, j) != _z3.Select(sol, j)), NONE, _z3.Select(old, j))
        return [length(ns.answer) == n,
                qall(lambda j: _z3.Select(A(ns), j) == _z3.If(j < i, dem(j), _z3.Select(old, j)))]

    loop_spec(SV, 3, inv=inv3, modifies=["answer"], types={"answer": "list:optint"})

    # loop 4: write back
    def inv4(ns):
        i = _zint(ns.i)
        if "sol_before_writeback" not in G:
            G["sol_before_writeback"] = G["sol"]
        prev = G["sol_before_writeback"]
        return [length(ns.answer) == n,
                qall(lambda j: _z3.Select(G["sol"], j) == _z3.If(_z3.And(j < i, K(j)), _z3.Select(A(ns), j), _z3.Select(prev, j)))]

    def havoc4():
        G["sol"] = _z3.Array(CTX.fresh_name("sol_wb"), _z3.IntSort(), _z3.IntSort())

    loop_spec(SV, 4, inv=inv4, modifies=[], ghost_havoc=havoc4)

    o = call(REAL(SOL, "Solver.solve"), solver, None)
    check("no-exception", not o.raised)
    if o.raised:
        return
    if case.first == "unsat":
        check("unsat-returns-False", o.value is False)
        check("unsat-leaves-sol-untouched", G["sol"] is sol_initial)
        check("unsat-no-further-solve", G["solves"] == 1)
        return
    check("sat-returns-True", o.value is True)
    # the loop was left because the last refuting clause was unsatisfiable
    check("loop-left-only-after-an-unsatisfiable-refutation", G["log"][-1] == ("solve",) or any(e[0] == "write" for e in G["log"]))


# ------------------------------------------------------------------------------------------------------------------
# The model-theoretic half: from the loop contracts to the property, as ghost state over an uninterpreted sort of
# models.  `holds(M)`: M satisfies the posted constraints and variable bounds; `val(M, i)`: the value of variable i.
# M0 is an ARBITRARY model (a constant: every claim about it is a claim about all models); the back end's `unsat`
# answers are used as ground instances at M0 only.
@harness("C02", cases=[dict(first=f) for f in ("unsat", "sat")])
def solve_reports_exactly_the_common_facts(case):
    """solve() = True iff a model exists; afterwards, for every answer key k: sol[k] = v != None implies every model
    gives k the value v; sol[k] = None implies two models that disagree on k exist.
    Assumed back-end contract: solve() returns True together with the values of SOME model of the constraints added so
    far (in every variable's sol), or False when there is none; add_constraint(OR of the literals) adds the
    disjunction of the literal meanings (per-operator contracts of C01)."""
    if CTX.mode != "sym":
        return
    I, B = _z3.IntSort(), _z3.BoolSort()
    Model = _z3.DeclareSort("Model")
    holds = _z3.Function("holds", Model, B)
    val = _z3.Function("val", Model, I, I)
    M0 = _z3.Const("M0_arbitrary", Model)
    n = sint("n_var")
    requires(n >= 0)
    k_ = _z3.Int("k!bound")
    variables = VList(None, n.t, _z3.Lambda([k_], k_), "ref")
    key = slist("is_answer_key", "int", n)
    G = {"sol": _z3.Array("sol_initial", I, I), "solves": 0, "P": _z3.BoolVal(True), "d": _z3.BoolVal(False),
         "W": _z3.Array("W_initial", I, Model), "adds": 0}
    sol_initial = G["sol"]
    from pyvc.values import _elem_wrap, _elem_unwrap

    def new_model(tag):
        m = _z3.Const(CTX.fresh_name("M_" + tag), Model)
        a = _z3.Array(CTX.fresh_name("sol_" + tag), I, I)
        q = _z3.Int(CTX.fresh_name("q"))
        CTX.assume(holds(m))
        CTX.assume(_z3.ForAll([q], _z3.And(_z3.Select(a, q) == val(m, q), val(m, q) != NONE)))
        return m, a

    ghost("sref_getattr", lambda ref, name: _elem_wrap("optint", _z3.Select(G["sol"], ref.t)) if name == "sol" else (_ for _ in ()).throw(OutOfSubset("attribute " + name)))

    def setattr_(ref, name, v):
        if name != "sol":
            raise OutOfSubset("attribute " + name)
        G["sol"] = _z3.Store(G["sol"], ref.t, _elem_unwrap("optint", v))

    ghost("sref_setattr", setattr_)
    ghost("sref_compare", lambda op, a, b: GhostNe(a, b) if op == "NotEq" and isinstance(a, SRef) else NotImplemented)
    ghost("sref_classes", set())

    def be_add(it, args, kwargs):
        G["adds"] += 1
        c = args[1]
        if G["adds"] == 1:
            return None                         # the posted constraints: they are what `holds` means
        # a refuting clause: must be the OR node over the list built by loop 2
        from pyvc.values import VObj as _VO
        ok = isinstance(c, _VO) and c.fields.get("op") is attr(CLS(EX, "Op"), "OR")
        check("refuting-clause-is-a-disjunction", ok)
        if not ok:
            raise PathEnd("clause shape")
        ops = c.fields.get("operands")
        same_list = isinstance(ops, VList) and G.get("clause_len") is not None and ops.length.eq(G["clause_len"]) and ops.arr.eq(G["clause_arr"])
        if not same_list:
            raise OutOfSubset("the refuting clause is not built directly from the list of literals")
        G["P"] = _z3.And(G["P"], G["d"])

    def be_solve(it, args, kwargs):
        G["solves"] += 1
        if G["solves"] == 1:
            if case.first == "unsat":
                CTX.assume(_z3.Not(holds(M0)))
                return False
            G["M1"], G["sol"] = new_model("first")
            G["sol_first"] = G["sol"]
            return True
        if sbool("resolve_sat_%d" % G["solves"]):
            G["Mcur"], G["sol"] = new_model("next")
            G["Mcur_iter"] = G.get("iter_token")
            return True
        CTX.assume(_z3.Not(_z3.And(holds(M0), G["P"])))
        return False

    use_contract(Z3B + "::Z3Backend.__init__", lambda it, a, k: None)
    use_contract(Z3B + "::Z3Backend.add_constraint", be_add)
    use_contract(Z3B + "::Z3Backend.solve", be_solve)
    use_contract(SOL + "::_get_backend", lambda it, a, k: CLS(Z3B, "Z3Backend"))
    solver = OBJ(SOL, "Solver", variables=variables, is_answer_key=key, constraints=mklist([]))
    A = lambda ns: ns.answer.arr
    K = lambda j: _z3.Select(key.arr, j) != 0

    def qall(body):
        return forall_range(n, lambda j: mk_bool(body(j.t)), hint="q")

    def inv0(ns):
        i = _zint(ns.i)
        return [length(ns.answer) == n,
                qall(lambda j: _z3.Select(A(ns), j) == _z3.If(_z3.And(j < i, K(j)), _z3.Select(G["sol_first"], j), NONE))]

    loop_spec(SV, 0, inv=inv0, modifies=["answer"], types={"answer": "list:optint"})

    def inv1(ns):
        a = A(ns)
        M1, W, P = G["M1"], G["W"], G["P"]
        return [length(ns.answer) == n,
                qall(lambda j: _z3.Implies(_z3.Not(K(j)), _z3.Select(a, j) == NONE)),
                qall(lambda j: _z3.Implies(_z3.And(K(j), _z3.Select(a, j) != NONE), _z3.Select(a, j) == val(M1, j))),
                qall(lambda j: _z3.Implies(_z3.And(K(j), _z3.Select(a, j) == NONE),
                                           _z3.And(holds(_z3.Select(W, j)), val(_z3.Select(W, j), j) != val(M1, j)))),
                qall(lambda j: _z3.Implies(_z3.And(K(j), _z3.Select(a, j) != NONE, val(M0, j) != _z3.Select(a, j)), P))]

    def havoc1():
        G["sol"] = _z3.Array(CTX.fresh_name("sol_loop_head"), I, I)
        G["P"] = _z3.Bool(CTX.fresh_name("P_earlier_clauses_hold_at_M0"))
        G["W"] = _z3.Array(CTX.fresh_name("W_witnesses"), I, Model)

    def head1(ns):
        G["d"] = _z3.BoolVal(False)
        snap = ns.answer.snapshot()
        G["iter_token"] = id(snap)
        G["keep"] = snap
        return snap

    def end1(ns, before):
        # ghost update after the demotion loop: a key demoted in this iteration gets the new model as witness
        if "Mcur" not in G or G.get("Mcur_iter") != id(before):
            # the iteration went on although the back end reported no further model
            check("the-loop-continues-only-after-a-further-model-was-found", False)
            raise PathEnd("no model in this iteration")
        old, sol, W, Mcur = before.arr, G["sol"], G["W"], G["Mcur"]
        j_ = _z3.Int(CTX.fresh_name("jw"))
        demoted = _z3.And(K(j_), _z3.Select(old, j_) != NONE, _z3.Select(old, j_) != _z3.Select(sol, j_))
        G["W"] = _z3.Lambda([j_], _z3.If(demoted, Mcur, _z3.Select(W, j_)))

    loop_spec(SV, 1, inv=inv1, modifies=["answer", "difference_cond"], types={"answer": "list:optint", "difference_cond": "list:ref", "a": "opaque"},
              ghost_havoc=havoc1, at_head=head1, at_end=end1)

    def inv2(ns):
        i = _zint(ns.i)
        a = A(ns)
        G["clause_len"], G["clause_arr"] = ns.difference_cond.length if ns.difference_cond.arr is not None else None, ns.difference_cond.arr
        return [length(ns.answer) == n,
                forall_range(ns.i, lambda j: mk_bool(_z3.Implies(_z3.And(K(j.t), _z3.Select(a, j.t) != NONE, val(M0, j.t) != _z3.Select(a, j.t)), G["d"])), hint="q")]

    def havoc2():
        G["d"] = _z3.Bool(CTX.fresh_name("d_clause_so_far_holds_at_M0"))

    flag = {}

    def head2(ns):
        flag["appended"] = False
        return None

    def on_append(ns, value):
        flag["appended"] = True
        if not isinstance(value, GhostNe):
            raise OutOfSubset("clause literal is not a disequality")
        check("clause-literal-names-variable-i", value.index == SRef(_zint(ns.i)))
        check("clause-literal-uses-the-current-answer", mk_bool(_zint(value.value) == _z3.Select(ns.answer.arr, _zint(ns.i))))
        G["d"] = _z3.Or(G["d"], val(M0, value.index.t) != _zint(value.value))

    def end2(ns, token):
        i = _zint(ns.i)
        a = _z3.Select(A(ns), i)
        want = _z3.And(K(i), a != NONE)
        check("every-key-with-an-answer-is-refuted", mk_bool(want) if flag["appended"] else mk_bool(_z3.Not(want)))

    loop_spec(SV, 2, inv=inv2, modifies=["difference_cond"], types={"difference_cond": "list:ref", "a": "opaque"},
              ghost_havoc=havoc2, at_head=head2, at_end=end2)
    watch("append", SV, "difference_cond", on_append)

    def inv3(ns):
        i = _zint(ns.i)
        old = ns.old.answer.arr
        sol = G["sol"]
        dem = lambda j: _z3.If(_z3.And(K(j), _z3.Select(old, j) != NONE, _z3.Select(old, j) != _z3.Select(sol, j)), NONE, _z3.Select(old, j))
        return [length(ns.answer) == n,
                qall(lambda j: _z3.Select(A(ns), j) == _z3.If(j < i, dem(j), _z3.Select(old, j)))]

    loop_spec(SV, 3, inv=inv3, modifies=["answer"], types={"answer": "list:optint"})

    def inv4(ns):
        i = _zint(ns.i)
        if "sol_before_writeback" not in G:
            G["sol_before_writeback"] = G["sol"]
        G["answer_final"] = A(ns)
        prev = G["sol_before_writeback"]
        return [length(ns.answer) == n,
                qall(lambda j: _z3.Select(G["sol"], j) == _z3.If(_z3.And(j < i, K(j)), _z3.Select(A(ns), j), _z3.Select(prev, j)))]

    def havoc4():
        G["sol"] = _z3.Array(CTX.fresh_name("sol_wb"), I, I)

    loop_spec(SV, 4, inv=inv4, modifies=[], ghost_havoc=havoc4)
    o = call(REAL(SOL, "Solver.solve"), solver, None)
    check("no-exception", not o.raised)
    if o.raised:
        return
    if case.first == "unsat":
        check("returns-False-only-when-no-model-exists", And(o.value is False, mk_bool(_z3.Not(holds(M0)))))
        return
    check("returns-True-and-a-model-exists", And(o.value is True, mk_bool(holds(G["M1"]))))
    k = fresh_int("key")
    requires(And(k >= 0, k < n))
    requires(mk_bool(K(k.t)))
    s_k = _z3.Select(G["sol"], k.t)
    check("a-reported-value-is-the-value-in-EVERY-model", implies(mk_bool(_z3.And(s_k != NONE, holds(M0))), mk_bool(val(M0, k.t) == s_k)))
    Wk = _z3.Select(G["W"], k.t)
    check("None-is-reported-only-when-two-models-disagree",
          implies(mk_bool(s_k == NONE), mk_bool(_z3.And(holds(G["M1"]), holds(Wk), val(G["M1"], k.t) != val(Wk, k.t)))))
