"""C15 — leaf codecs round-trip for ALL values and ALL surrounding text (contracts).

For (k, s) = c.serialize(env, data, idx) and arbitrary strings pre, rest:
    c.deserialize(env, pre + s + rest, len(pre)) == (len(s), data[idx:idx+k])
hex(), int(s, 16), int(s, 36) are uninterpreted; the facts used about them are asserted as GROUND
instances for the value at hand and are validated natively on every run (facts_validation):
    hex(v) == "0x" + d  with len(d) = 1/2/3 for v < 16/256/4096, d over [0-9a-f], int(d, 16) == v
    for 0 <= n < 36: B36[n] is a lower-case alphanumeric character and int(B36[n], 36) == n
"""
import z3 as _z3

from pyvc.api import *
from pyvc.hostmodels import UF

PS = "cspuz/problem_serializer.py"
B36 = "0123456789abcdefghijklmnopqrstuvwxyz"


def facts_validation():
    """native validation of the ground facts (exhaustive over their finite domains)"""
    n = 0
    for v in range(4096):
        h = hex(v)
        d = h[2:]
        assert h[:2] == "0x" and len(d) == (1 if v < 16 else 2 if v < 256 else 3)
        assert all(c in "0123456789abcdef" for c in d) and int(d, 16) == v
        n += 1
    for k in range(36):
        c = B36[k]
        assert int(c, 36) == k and (48 <= ord(c) <= 57 or 97 <= ord(c) <= 122)
        assert ord(c) == (k + 48 if k < 10 else k + 87)
        n += 1
    return n


def _is_hex_code(c):
    code = _z3.StrToCode(c)
    return _z3.Or(_z3.And(code >= 48, code <= 57), _z3.And(code >= 97, code <= 102))


def hex_facts(v):
    """ground instance of the hex()/int(,16) facts for the symbolic value v (0 <= v <= 4095)"""
    H = UF["hex"](v.t)
    D = _z3.String(CTX.fresh_name("hexdigits"))
    n = _z3.If(v.t < 16, 1, _z3.If(v.t < 256, 2, 3))
    fs = [H == _z3.Concat(_z3.StringVal("0x"), D), _z3.Length(D) == n, UF["int16_ok"](D), UF["int16"](D) == v.t]
    for j in range(3):
        fs.append(_z3.Implies(n > j, _is_hex_code(_z3.SubString(D, j, 1))))
    assume_fact(mk_bool(_z3.And(fs)))
    return SStr(D)


def b36_facts(n):
    """ground instance for the base-36 digit of n (0 <= n < 36)"""
    c = _z3.SubString(_z3.StringVal(B36), n.t if hasattr(n, "t") else n, 1)
    nn = n.t if hasattr(n, "t") else _z3.IntVal(n)
    code = _z3.StrToCode(c)
    assume_fact(mk_bool(_z3.And(UF["int36_ok"](c), UF["int36"](c) == nn, _z3.Length(c) == 1,
                                code == _z3.If(nn < 10, nn + 48, nn + 87))))
    return SStr(c)


def _env():
    return OBJ(PS, "CombinatorEnv", height=sint("height"), width=sint("width"))


def _hex_inputs(case):
    lo, hi = {"1": (0, 15), "2": (16, 255), "3": (256, 4095)}[case.digits]
    for v in sorted(set([lo, lo + 1, (lo + hi) // 2, hi - 1, hi])):
        for pre in ("", "x/", "-", "+f"):
            for rest in ("", "0", "-", "g/"):
                yield dict(v=v, pre=pre, rest=rest)


@harness("C15", cases=[dict(digits=d) for d in "123"], native_inputs=_hex_inputs)
def hexint_roundtrip(case):
    """HexInt: every 0 <= v <= 4095, any text before and after"""
    v = sint("v")
    lo, hi = {"1": (0, 15), "2": (16, 255), "3": (256, 4095)}[case.digits]
    requires(And(v >= lo, v <= hi))
    pre, rest = sstr("pre"), sstr("rest")
    env, obj = _env(), OBJ(PS, "HexInt")
    if CTX.mode == "sym":
        hex_facts(v)
    if CTX.mode == "sym":
        # the value sits at an arbitrary position of an arbitrary list of integers
        n_items, pos = sint("len"), sint("idx")
        requires(And(pos >= 0, pos < n_items))
        data = slist("data", "int", n_items)
        requires(raw_item(data, pos) == v)
    else:
        data, pos = mklist([v]), 0
    o = call(REAL(PS, "HexInt.serialize"), obj, env, data, pos)
    check("serialize-accepts", And(not o.raised, o.value is not None))
    if o.raised or o.value is None:
        return
    k, s = o.value
    check("one-item-consumed", k == 1)
    check("text-length", length(s) == {"1": 1, "2": 3, "3": 4}[case.digits])
    text = pre + s + rest
    o2 = call(REAL(PS, "HexInt.deserialize"), obj, env, text, length(pre))
    check("deserialize-no-exception", not o2.raised)
    if o2.raised:
        return
    check("deserialize-accepts-own-output", o2.value is not None)
    if o2.value is None:
        return
    n, items = o2.value
    check("consumes-exactly-the-produced-text", n == length(s))
    check("one-item-back", length(items) == 1)
    if length(items) == 1:
        check("same-value-back", item(items, 0) == v)


# ---------------------------------------------------------------------------------------------
@harness("C15", native_inputs=lambda case: [dict(n=n) for n in range(0, 36)])
def to_base36_single_digit(case):
    """_to_base36(n) for 0 <= n < 36 is the one character B36[n] (contract used by the leaf codecs)"""
    n = sint("n")
    requires(And(n >= 0, n < 36))
    o = call(REAL(PS, "_to_base36"), n)
    check("no-exception", not o.raised)
    if o.raised:
        return
    if CTX.mode == "sym":
        check("is-the-digit", o.value == SStr(_z3.SubString(_z3.StringVal(B36), n.t, 1)))
    else:
        check("is-the-digit", o.value == B36[n])


def to_base36_contract(it, args, kwargs):
    n = args[0]
    check("pre:_to_base36:single-digit-range", And(n >= 0, n < 36))
    return b36_facts(n)


def _spaces_inputs(case):
    import random
    rnd = random.Random(3)
    for off in (0, 5, 15, 33, 34):
        mx = 35 - off
        for run in sorted(set([1, 2, mx - 1, mx, mx + 1, mx + 3])):
            if run < 1:
                continue
            for idx in (0, 2):
                data = [7] * idx + [0] * run + ([5] if rnd.random() < 0.5 else [])
                yield dict(off=off, idx=idx, data=data, pre=rnd.choice(["", "z9"]), rest=rnd.choice(["", "g", "0"]))


@harness("C15", native_inputs=_spaces_inputs)
def spaces_roundtrip(case):
    """Spaces: k = length of the maximal run capped at max_consecutive; one character; decoder returns [space]*k"""
    off = sint("off")
    requires(And(off >= 0, off <= 34))
    space = sint("space") if CTX.mode == "sym" else 0          # any integer stands for "empty" (0 / -1 in the puzzle codecs)
    obj = OBJ(PS, "Spaces", _space=space, _smallest="?", _offset=off, _max_consecutive=35 - off)
    env = _env()
    idx = sint("idx")
    if CTX.mode == "sym":
        n = sint("len")
        requires(And(idx >= 0, idx <= n))
        data = slist("data", "int", n)
        use_contract(PS + "::_to_base36", to_base36_contract)
        loop_spec(PS + "::Spaces.serialize", 0,
                  inv=lambda ns: [ns.i >= 1, ns.i <= ns.self._max_consecutive if False else ns.i <= 35 - off, ns.idx + ns.i <= length(ns.data),
                                  forall_range(ns.i, lambda j: raw_item(ns.data, ns.idx + j) == space)])
    else:
        data = mklist(CTX.native_inputs.get("data", []))
        n = length(data)
    pre, rest = sstr("pre"), sstr("rest")
    o = call(REAL(PS, "Spaces.serialize"), obj, env, data, idx)
    check("serialize-no-exception", not o.raised)
    if o.raised or o.value is None:
        return
    k, s = o.value
    check("run-length-in-range", And(k >= 1, k <= 35 - off, idx + k <= length(data)))
    check("run-consists-of-spaces", forall_range(k, lambda j: raw_item(data, idx + j) == space))
    check("one-character", length(s) == 1)
    o2 = call(REAL(PS, "Spaces.deserialize"), obj, env, pre + s + rest, length(pre))
    check("deserialize-no-exception", not o2.raised)
    if o2.raised:
        return
    check("deserialize-accepts-own-output", o2.value is not None)
    if o2.value is None:
        return
    n2, items = o2.value
    check("consumes-exactly-the-produced-text", n2 == 1)
    check("same-run-length-back", length(items) == k)
    check("only-spaces-back", forall_range(k, lambda j: raw_item(items, j) == space))


def _intspaces_inputs(case):
    for (mi, ms) in ((4, 2), (8, 3), (35, 0), (0, 35), (5, 5)):
        for v in (0, mi):
            for sp in range(0, ms + 2):
                yield dict(mi=mi, ms=ms, idx=1, data=[9, v] + [-1] * sp + [v], pre="", rest="0")
                yield dict(mi=mi, ms=ms, idx=0, data=[v] + [-1] * sp, pre="a", rest="")


@harness("C15", native_inputs=_intspaces_inputs)
def intspaces_roundtrip(case):
    """IntSpaces: n = spaces*(max_int+1) + v < 36 in one character; decoder gives back [v] + [space]*spaces"""
    mi, ms = sint("mi"), sint("ms")
    requires(And(mi >= 0, ms >= 0, (mi + 1) * (ms + 1) <= 36))
    space = sint("space") if CTX.mode == "sym" else -1
    obj = OBJ(PS, "IntSpaces", _space=space, _max_int=mi, _max_num_spaces=ms)
    env = _env()
    idx = sint("idx")
    if CTX.mode == "sym":
        n = sint("len")
        requires(And(idx >= 0, idx < n))
        data = slist("data", "int", n)
        use_contract(PS + "::_to_base36", to_base36_contract)
        loop_spec(PS + "::IntSpaces.serialize", 0,
                  inv=lambda ns: [ns.num_spaces >= 0, ns.num_spaces <= ms, ns.idx + ns.num_spaces < length(ns.data),
                                  forall_range(ns.num_spaces, lambda j: raw_item(ns.data, ns.idx + 1 + j) == space)])
    else:
        data = mklist(CTX.native_inputs.get("data", [0]))
    pre, rest = sstr("pre"), sstr("rest")
    o = call(REAL(PS, "IntSpaces.serialize"), obj, env, data, idx)
    check("serialize-no-exception", not o.raised)
    if o.raised or o.value is None:
        return
    k, s = o.value
    v = raw_item(data, idx)
    check("value-in-range", And(v >= 0, v <= mi))
    check("consumed-in-range", And(k >= 1, k <= 1 + ms, idx + k <= length(data)))
    check("one-character", length(s) == 1)
    o2 = call(REAL(PS, "IntSpaces.deserialize"), obj, env, pre + s + rest, length(pre))
    check("deserialize-no-exception", not o2.raised)
    if o2.raised:
        return
    check("deserialize-accepts-own-output", o2.value is not None)
    if o2.value is None:
        return
    n2, items = o2.value
    check("consumes-exactly-the-produced-text", n2 == 1)
    check("same-item-count-back", length(items) == k)
    check("value-back", raw_item(items, 0) == v)
    check("spaces-back", forall_range(k - 1, lambda j: And(raw_item(items, 1 + j) == space, raw_item(data, idx + 1 + j) == space)))


MD_CASES = [dict(base=b, digits=d) for (b, d) in ((2, 1), (2, 5), (3, 3), (6, 2), (36, 1), (5, 2), (2, 3))]


def _md_inputs(case):
    import itertools
    b, d = case.base, case.digits
    for tail in range(1, d + 1):
        for digs in itertools.islice(itertools.product(range(b), repeat=tail), 0, 40):
            yield dict(idx=1, data=[0] + list(digs), pre="q", rest="")
    for digs in itertools.islice(itertools.product(range(b), repeat=d), 0, 60):
        yield dict(idx=0, data=list(digs) + [0, 0], pre="", rest="z")


@harness("C15", cases=MD_CASES, native_inputs=_md_inputs)
def multidigit_roundtrip(case):
    """MultiDigit: `digits` base-`base` digits packed into one character (short tails padded with zeros); the
    decoder returns the same digits (the padded tail decodes to a list whose prefix is the tail)"""
    b, d = case.base, case.digits
    obj = OBJ(PS, "MultiDigit", _base=b, _digits=d)
    env = _env()
    idx = sint("idx")
    if CTX.mode == "sym":
        n = sint("len")
        requires(And(idx >= 0, idx < n))
        data = slist("data", "int", n)
        use_contract(PS + "::_to_base36", to_base36_contract)
    else:
        data = mklist(CTX.native_inputs.get("data", [0]))
    pre, rest = sstr("pre"), sstr("rest")
    o = call(REAL(PS, "MultiDigit.serialize"), obj, env, data, idx)
    check("serialize-no-exception", not o.raised)
    if o.raised or o.value is None:
        return
    k, s = o.value
    check("consumed-in-range", And(k >= 1, k <= d, idx + k <= length(data)))
    check("a-short-group-only-at-the-end-of-the-data", Or(k == d, idx + k == length(data)))
    check("one-character", length(s) == 1)
    o2 = call(REAL(PS, "MultiDigit.deserialize"), obj, env, pre + s + rest, length(pre))
    check("deserialize-no-exception", not o2.raised)
    if o2.raised:
        return
    check("deserialize-accepts-own-output", o2.value is not None)
    if o2.value is None:
        return
    n2, items = o2.value
    check("consumes-exactly-the-produced-text", n2 == 1)
    check("all-digits-back", length(items) == d)
    for j in range(d):
        present = j < k
        check("digit-%d-back-or-zero-padding" % j, ite(present, raw_item(items, j) == raw_item(data, idx + j), raw_item(items, j) == 0)
              if not isinstance(present, bool) else (raw_item(items, j) == raw_item(data, idx + j) if present else raw_item(items, j) == 0))


# ------------------------------------------------------------------------------------------------ DecInt
def decimal_facts_validation():
    """native validation (sampled: the domain is infinite) of the facts used about str(int) / int(str) / str.isdigit:
    for v >= 0, str(v) is a non-empty run of characters c with c.isdigit(), and int(str(v)) == v"""
    n = 0
    vs = list(range(0, 3000)) + [10 ** k + d for k in range(3, 40) for d in (-1, 0, 1)] + [7 ** k for k in range(5, 60)]
    for v in vs:
        d = str(v)
        assert len(d) >= 1 and all(c.isdigit() for c in d) and int(d) == v
        n += 1
    return n


def _concat_lemmas(text, pre, mid, rest, n):
    """theorems of the theory of strings about text == pre + mid + rest (each proved by `concat_substring_lemma`):
    text[len(pre)+n] is mid[n] for 0 <= n < len(mid); the character after mid is rest[0]; the Python slice
    text[len(pre):len(pre)+n] is mid when n == len(mid)"""
    from pyvc.hostmodels import _py_slice_bounds
    hyp = text == _z3.Concat(pre, mid, rest)
    P, M = _z3.Length(pre), _z3.Length(mid)
    lo, hi = _py_slice_bounds(_z3.Length(text), SInt(P), SInt(P) + SInt(n))
    ln = _z3.If(hi > lo, hi - lo, _z3.IntVal(0))
    return [_z3.Implies(_z3.And(hyp, n >= 0, n < M), _z3.SubString(text, P + n, 1) == _z3.SubString(mid, n, 1)),
            _z3.Implies(_z3.And(hyp, _z3.Length(rest) > 0), _z3.SubString(text, P + M, 1) == _z3.SubString(rest, 0, 1)),
            _z3.Implies(_z3.And(hyp, n == M), _z3.SubString(text, lo, ln) == mid)]


@harness("C15")
def concat_substring_lemma(case):
    if CTX.mode != "sym":
        return
    text, pre, mid, rest, n = sstr("text"), sstr("pre"), sstr("mid"), sstr("rest"), sint("n")
    for j, f in enumerate(_concat_lemmas(text.t, pre.t, mid.t, rest.t, n.t)):
        check("substring-of-a-concatenation-%d" % j, mk_bool(f))


def _decint_inputs(case):
    for v in (0, 1, 9, 10, 99, 100, 12345, 10 ** 20):
        for pre in ("", "x", "12/"):
            for rest in ("", "/", "a7"):
                yield dict(v=v, pre=pre, rest=rest)


@harness("C15", native_inputs=_decint_inputs)
def decint_roundtrip(case):
    """DecInt: a non-negative int is written as str(v) and read back from pre + str(v) + rest at len(pre), consuming
    exactly the digits, provided the text after it does not start with a digit (greedy reader); negative ints and
    non-ints are refused.  str(int)/int(str)/isdigit are uninterpreted; the facts used are ground instances of
    decimal_facts_validation."""
    env = _env()
    obj = OBJ(PS, "DecInt")
    v, pre, rest = sint("v"), sstr("pre"), sstr("rest")
    o = call(REAL(PS, "DecInt.serialize"), obj, env, mklist([sint("other"), v]), 1)
    check("serialize-no-exception", not o.raised)
    if o.raised:
        return
    check("negative-values-are-refused,-others-accepted", (o.value is None) == (v < 0) if isinstance(v < 0, bool) else
          (mk_bool(v.t < 0) if o.value is None else mk_bool(v.t >= 0)))
    if o.value is None:
        return
    k, s = o.value
    check("one-item-consumed", k == 1)
    if CTX.mode == "sym":
        D = UF["str_int"](v.t)
        L = _z3.Length(D)
        check("the-text-is-str(v)", s == SStr(D))
        assume_fact(mk_bool(_z3.And(L >= 1, UF["int10_ok"](D), UF["int10"](D) == v.t)))
        requires(Or(length(rest) == 0, Not(mk_bool(UF["isdigit"](_z3.SubString(rest.t, 0, 1))))))

        def havoc_n():
            kk = _z3.Int(CTX.fresh_name("n_digits"))
            # instance of "every character of str(v) is a digit" at the havoced position
            assume_fact(mk_bool(_z3.Implies(_z3.And(kk >= 0, kk < L), UF["isdigit"](_z3.SubString(D, kk, 1)))))
            for f in _concat_lemmas((pre + s + rest).t, pre.t, D, rest.t, kk):
                lemma("C15/concat_substring_lemma", mk_bool(f))
            return SInt(kk)

        loop_spec(PS + "::DecInt.deserialize", 0, types={"n_digits": havoc_n},
                  inv=lambda ns: [ns.n_digits >= 0, ns.n_digits <= mk_int(L), ns.idx == length(pre)])
    else:
        check("the-text-is-str(v)", s == str(v))
    text = pre + s + rest
    o2 = call(REAL(PS, "DecInt.deserialize"), obj, env, text, length(pre))
    check("deserialize-no-exception", not o2.raised)
    if o2.raised:
        return
    check("deserialize-accepts-own-output", o2.value is not None)
    if o2.value is None:
        return
    n2, items = o2.value
    check("consumes-exactly-the-produced-text", n2 == length(s))
    check("yields-the-original-value", is_list(items) and length(items) == 1 and item(items, 0) == v)


# ------------------------------------------------------------------------------------------------ FixStr, Dict
@harness("C15")
def fixstr_roundtrip(case):
    """FixStr(s): serialize produces s and consumes no item; deserialize of pre + s + rest at len(pre) consumes exactly s"""
    if CTX.mode != "sym":
        return
    fix, pre, rest = sstr("fix"), sstr("pre"), sstr("rest")
    env = _env()
    obj = OBJ(PS, "FixStr", _s=fix)
    o = call(REAL(PS, "FixStr.serialize"), obj, env, mklist([]), 0)
    check("serialize-no-exception", not o.raised)
    if o.raised:
        return
    check("serialize-consumes-no-item-and-writes-the-text", isinstance(o.value, tuple) and o.value[0] == 0 and o.value[1] == fix)
    d = call(REAL(PS, "FixStr.deserialize"), obj, env, pre + fix + rest, length(pre))
    check("deserialize-no-exception", not d.raised)
    if d.raised:
        return
    r = d.value
    check("deserialize-accepts-its-own-text", r is not None)
    if r is not None:
        check("consumes-exactly-the-produced-characters", r[0] == length(fix))
        check("yields-no-item", is_list(r[1]) and length(r[1]) == 0)


@harness("C15", cases=[dict(which=w) for w in (0, 1)])
def dict_roundtrip(case):
    """Dict([b0, b1], [a0, a1]) with texts of which none is a prefix of the other (distinguishable alternatives):
    the value b_k is written as a_k and read back as b_k, consuming exactly a_k"""
    if CTX.mode != "sym":
        return
    a0, a1, pre, rest = sstr("a0"), sstr("a1"), sstr("pre"), sstr("rest")
    requires(And(length(a0) >= 1, length(a1) >= 1))
    requires(Not(mk_bool(_z3.PrefixOf(a0.t, a1.t))))
    requires(Not(mk_bool(_z3.PrefixOf(a1.t, a0.t))))
    b0, b1 = sint("b0"), sint("b1")
    requires(b0 != b1)
    env = _env()
    obj = OBJ(PS, "Dict", _before=mklist([b0, b1]), _after=mklist([a0, a1]))
    val, text = (b0, a0) if case.which == 0 else (b1, a1)
    o = call(REAL(PS, "Dict.serialize"), obj, env, mklist([sint("other"), val]), 1)
    check("serialize-no-exception", not o.raised)
    if o.raised:
        return
    check("the-value-is-written-as-its-own-text", isinstance(o.value, tuple) and o.value[0] == 1 and o.value[1] == text)
    d = call(REAL(PS, "Dict.deserialize"), obj, env, pre + text + rest, length(pre))
    check("deserialize-no-exception", not d.raised)
    if d.raised:
        return
    r = d.value
    check("deserialize-accepts-its-own-text", r is not None)
    if r is not None:
        check("consumes-exactly-the-produced-characters", r[0] == length(text))
        check("yields-the-original-value", is_list(r[1]) and length(r[1]) == 1 and item(r[1], 0) == val)
    o2 = call(REAL(PS, "Dict.serialize"), obj, env, mklist([sint("unknown_value")]), 0)
    if not o2.raised and o2.value is not None:
        check("only-dictionary-keys-are-accepted", Or(item(mklist([sint("unknown_value")]), 0) == b0, item(mklist([sint("unknown_value")]), 0) == b1))


# ------------------------------------------------------------------------------------------------ leading characters
def leading_class(cls, **p):
    """the set of characters a leaf decoder may accept as the first character, as a predicate on the character code
    (spec used by `leaf_accepts_only` symbolically and by the instance check of the puzzle codecs natively)"""
    def digit_value(code):
        return code - 48 if code <= 57 else code - 87

    def alnum(code):
        return 48 <= code <= 57 or 97 <= code <= 122

    if cls == "HexInt":
        return lambda code: 48 <= code <= 57 or 97 <= code <= 102 or code in (45, 43)
    if cls == "Spaces":
        return lambda code: alnum(code) and digit_value(code) > p["offset"]
    if cls == "IntSpaces":
        return lambda code: alnum(code) and digit_value(code) < (p["max_int"] + 1) * (p["max_num_spaces"] + 1)
    if cls == "MultiDigit":
        return lambda code: alnum(code) and digit_value(code) < p["base"] ** p["digits"]
    if cls == "Dict":
        return lambda code: any(len(a) > 0 and ord(a[0]) == code for a in p["after"])
    if cls == "DecInt":
        return lambda code: chr(code).isdigit()
    raise KeyError(cls)


@harness("C15", cases=[dict(cls=c) for c in ("HexInt", "Spaces", "IntSpaces", "Dict", "DecInt")] +
         [dict(cls="MultiDigit", base=b, digits=d) for (b, d) in ((2, 1), (2, 5), (3, 3), (6, 2), (36, 1), (5, 2), (2, 3))])
def leaf_accepts_only(case):
    """`Lead` for the leaves: at the end of the text every leaf decoder answers None, and it answers something else only
    if the character at idx belongs to its class (leading_class); with the round trip this gives: every produced text
    starts in the class"""
    if CTX.mode != "sym":
        return
    text, idx = sstr("text"), sint("idx")
    requires(And(idx >= 0, idx <= length(text)))
    env = _env()
    c0 = _z3.SubString(text.t, idx.t, 1)
    code = _z3.StrToCode(c0)
    alnum = _z3.Or(_z3.And(code >= 48, code <= 57), _z3.And(code >= 97, code <= 122))
    value = _z3.If(code <= 57, code - 48, code - 87)
    # ground instance of "int(c, 36) of one lower-case alphanumeric character is its digit value" (facts_validation)
    assume_fact(mk_bool(_z3.Implies(alnum, UF["int36"](c0) == value)))
    if case.cls == "HexInt":
        obj = OBJ(PS, "HexInt")
        use_contract(PS + "::_from_base16", lambda it, a, k: fresh_int("hexvalue"))
        member = _z3.Or(_z3.And(code >= 48, code <= 57), _z3.And(code >= 97, code <= 102), code == 45, code == 43)
    elif case.cls == "Spaces":
        off = sint("offset")
        requires(And(off >= 0, off <= 34))
        obj = OBJ(PS, "Spaces", _space=sref("space"), _smallest="g", _offset=off, _max_consecutive=35 - off)
        member = _z3.And(alnum, value > off.t)
    elif case.cls == "IntSpaces":
        mi, ms = sint("max_int"), sint("max_num_spaces")
        requires(And(mi >= 0, ms >= 0, (mi + 1) * (ms + 1) <= 36))
        obj = OBJ(PS, "IntSpaces", _space=sref("space"), _max_int=mi, _max_num_spaces=ms)
        member = _z3.And(alnum, value < (mi.t + 1) * (ms.t + 1))
    elif case.cls == "Dict":
        a0, a1 = sstr("a0"), sstr("a1")
        requires(And(length(a0) >= 1, length(a1) >= 1))
        obj = OBJ(PS, "Dict", _before=mklist([sref("b0"), sref("b1")]), _after=mklist([a0, a1]))
        member = _z3.Or(c0 == _z3.SubString(a0.t, 0, 1), c0 == _z3.SubString(a1.t, 0, 1))
    elif case.cls == "DecInt":
        obj = OBJ(PS, "DecInt")
        member = UF["isdigit"](c0)
        loop_spec(PS + "::DecInt.deserialize", 0,
                  inv=lambda ns: [ns.n_digits >= 0, ns.idx + ns.n_digits <= length(ns.data), ns.idx == idx, ns.data == text,
                                  implies(ns.n_digits >= 1, mk_bool(member))])
    else:
        obj = OBJ(PS, "MultiDigit", _base=case.base, _digits=case.digits)
        member = _z3.And(alnum, value < case.base ** case.digits)
    o = call(REAL(PS, case.cls + ".deserialize"), obj, env, text, idx)
    if o.raised:
        return          # (exception safety is C17's contract)
    if o.value is not None:
        check("nothing-is-read-at-the-end-of-the-text", idx < length(text))
        check("the-first-character-belongs-to-the-leaf's-class", mk_bool(member))


def leading_class_validation():
    """native: the symbolic class predicates above and `leading_class` agree on every character code 0..127"""
    n = 0
    for code in range(128):
        al = 48 <= code <= 57 or 97 <= code <= 122
        val = code - 48 if code <= 57 else code - 87
        assert leading_class("HexInt")(code) == (48 <= code <= 57 or 97 <= code <= 102 or code == 45 or code == 43)
        for off in range(0, 35):
            assert leading_class("Spaces", offset=off)(code) == (al and val > off)
        for (mi, ms) in ((4, 2), (8, 3), (35, 0), (0, 35)):
            assert leading_class("IntSpaces", max_int=mi, max_num_spaces=ms)(code) == (al and val < (mi + 1) * (ms + 1))
        for (b, d) in ((2, 5), (3, 3), (6, 2), (36, 1)):
            assert leading_class("MultiDigit", base=b, digits=d)(code) == (al and val < b ** d)
        if al:
            assert int(chr(code), 36) == val
        n += 1
    return n
