"""C07 — emission contract of _division_connected_variable_groups (and the constraint the `_with_borders` variant adds
on its non-native route) and the lemmas that carry it to the property.

Proved here by pyvc for every graph (ghost incidence lists, row i = entries (NB(i,k), IE(i,k)); edge list (U(e), V(e))),
for group_size = None, one integer, or a per-vertex list with None holes:
  * created, in this order: group ids and ranks with domain [0, n-1], n root flags, m activity flags (one per edge), and —
    only with group sizes — `down` and `total` with domain [1, n];
  * posted once, array-wise:  is_root == (rank == 0);  with sizes also  down <= total  and  is_root -> (down == total);
  * per vertex i:   is_root[i] -> group_id[i] == i;   for every entry (j, e) of row i:  active[e] -> rank[j] != rank[i];
                    count_true([active[e] & (rank[j] < rank[i]) for every entry]) == cond(is_root[i], 0, 1);
  * per edge e = (u, v):  active[e] -> group_id[u] == group_id[v];
  * with sizes, per vertex i:  sum([cond(active[e] & (rank[j] > rank[i]), down[j], 0) for every entry]) + 1 == down[i],
                    and  total[i] == s  exactly when a size s is given for i (the integer, or the list's entry);
    with a per-vertex list also per edge e = (u, v):  active[e] -> total[u] == total[v];
  * nothing else; the group-id array is returned.
  * `_division_connected_variable_groups_with_borders` (non-native route): the call above with the same graph and sizes,
    then per edge e = (u, v):  is_border[e] == (group_id[u] != group_id[v]);  ValueError for sequences of the wrong length.
The array-wise constraints mean their element-wise versions (C12).  For a loop-free graph this is the schema of
lean/Encoders.lean, namespace C07 (`Base`, `Sized`), where Lean proves for every partition P of the vertices
  enc_iff_plain / enc_iff_sized :  some assignment realises P by the group ids (equal ids exactly inside a block)
                                   <=>  every block is connected (and every sized vertex lies in a block of that size),
  enc_iff_borders :  satisfiable together with  is_border[e] <-> ids differ   <=>  the blocks obtained by cutting the border
                     edges meet the size condition and every border edge joins two different blocks.
An integer *variable* as group size is the integer case for each of its values.  IntArray1D / IntExpr sizes and the native
routes are not covered here (native operand layout: c04_graph_plumbing.py).
"""
import z3 as _z3

from pyvc.api import *
from pyvc.values import VList, HostFn, GhostVal, AbstractSeq, PointwiseSeq, VObj
from pyvc.sym import _zint
from contracts.c04_graph_plumbing import IncView, IncRowView, EdgeList
from contracts.c09_emission import T
from contracts.c06_emission import F

GR = "cspuz/graph.py"
SOLV = "cspuz/solver.py"
K = GR + "::_division_connected_variable_groups"
KB = GR + "::_division_connected_variable_groups_with_borders"
I = _z3.IntSort()
B = _z3.BoolSort()


def _eq(a, b):
    r = a == b
    return r if isinstance(r, bool) else bool(r)


class IntArr(GhostVal):
    """an integer variable array: element j is T('int', name, j); whole-array comparisons are recorded as such"""

    def __init__(self, name, n):
        self.name, self.n = name, n

    def pv_len(self):
        return self.n

    def pv_getitem(self, j):
        if not bool((j >= 0) & (j < self.n)):
            check("index-into-%s-is-in-range" % self.name, False)
            raise PathEnd("index")
        return T("int", self.name, j)

    def pv_compare(self, opname, other, reflected):
        return T("arr:cmp:" + opname, *((other, self) if reflected else (self, other)))


class FlagArr(GhostVal):
    def __init__(self, name, n):
        self.name, self.n = name, n

    def pv_len(self):
        return self.n

    def pv_getitem(self, j):
        if not bool((j >= 0) & (j < self.n)):
            check("index-into-%s-is-in-range" % self.name, False)
            raise PathEnd("index")
        return F("flag", self.name, j)

    def pv_compare(self, opname, other, reflected):
        return T("arr:cmp:" + opname, *((other, self) if reflected else (self, other)))

    def pv_getattr(self, name):
        if name == "then":
            return HostFn(lambda it, a, k: T("arr:then", self, *a), "then", raw=True)
        raise OutOfSubset("flag array .%s" % name)


def _int(t, name, j):
    return isinstance(t, T) and t.tag == "int" and t.parts[0] == name and _eq(t.parts[1], j)


def _flag(t, name, j):
    return isinstance(t, T) and t.tag == "flag" and t.parts[0] == name and _eq(t.parts[1], j)


def _cmp(t, tag, pa, pb, sym=False):
    """t is T(tag, a, b) with pa(a), pb(b) (or the other way round for a symmetric comparison)"""
    if not (isinstance(t, T) and t.tag == tag and len(t.parts) == 2):
        return False
    a, b = t.parts
    return (pa(a) and pb(b)) or (sym and pa(b) and pb(a))


def _then(t, name, j):
    """t is flag[name][j].then(x): returns x or None"""
    if isinstance(t, T) and t.tag == "then" and len(t.parts) == 2 and _flag(t.parts[0], name, j):
        return t.parts[1]
    return None


class World:
    """ghost state shared by the two harnesses"""

    def __init__(self, case):
        self.case = case
        n, m = sint("n"), sint("m")
        requires(And(n >= 0, m >= 0))
        self.n, self.m = n, m
        self.LEN, self.NB, self.IE = _z3.Function("LEN", I, I), _z3.Function("NB", I, I, I), _z3.Function("IE", I, I, I)
        self.U, self.V = _z3.Function("U", I, I), _z3.Function("V", I, I)
        w = self

        class Row(IncRowView):
            pv_indexed = True

            def pv_getitem(self, k):
                j, e = IncRowView.pv_getitem(self, k)
                assume_fact(mk_bool(_z3.And(j.t >= 0, j.t < n.t)))
                return (j, e)

        class Inc(IncView):
            def pv_getitem(self, v):
                IncView.pv_getitem(self, v)
                return Row(self, v)

        class Edges(EdgeList):
            def pv_getitem(self, k):
                u, v = EdgeList.pv_getitem(self, k)
                assume_fact(mk_bool(_z3.And(u.t >= 0, u.t < n.t, v.t >= 0, v.t < n.t)))     # representation invariant of Graph
                return (u, v)

        self.edges = Edges(m, self.U, self.V)
        self.g = OBJ(GR, "Graph", num_vertices=n, edges=self.edges, incident_edges=Inc(n, m, self.LEN, self.NB, self.IE))
        self.created, self.posted, self.arrays = [], [], {}
        self.solver = OBJ(SOLV, "Solver", variables=mklist([]), is_answer_key=mklist([]), constraints=mklist([]))
        int_names, flag_names = ["gid", "rank", "down", "total"], ["root", "active"]

        def int_array(it, a, k):
            nm = int_names[len([c for c in w.created if c[0] == "int"])]
            w.created.append(("int",) + tuple(a[1:]))
            w.arrays[nm] = IntArr(nm, a[1])
            return w.arrays[nm]

        def bool_array(it, a, k):
            nm = flag_names[len([c for c in w.created if c[0] == "bool"])]
            w.created.append(("bool",) + tuple(a[1:]))
            w.arrays[nm] = FlagArr(nm, a[1])
            return w.arrays[nm]

        use_contract(SOLV + "::Solver.int_array", int_array)
        use_contract(SOLV + "::Solver.bool_array", bool_array)
        use_contract(SOLV + "::Solver.ensure", lambda it, a, k: w.posted.extend(a[1:]))
        use_contract("cspuz/constraints.py::count_true", lambda it, a, k: T("count_true", *a))
        ghost("sum", lambda src, start: T("sum", src) if _eq(start, 0) else None)
        # sizes
        self.sizes = None
        if case.sizes == "int":
            self.sizes = sint("group_size")
        elif case.sizes == "list":
            NONE, SIZE = _z3.Function("SIZENONE", I, B), _z3.Function("SIZE", I, I)
            self.NONE, self.SIZE = NONE, SIZE

            class Sizes(GhostVal):
                pv_pytype = "list"

                def pv_len(self):
                    return n

                def pv_getitem(self, p):
                    if not bool((p >= 0) & (p < n)):
                        raise PyRaise(IndexError("list index out of range"))
                    if bool(mk_bool(NONE(_zint(p)))):
                        return None
                    return SInt(SIZE(_zint(p)))
            self.sizes = Sizes()

    def entry(self, i, k):
        return SInt(self.NB(_zint(i), _zint(k))), SInt(self.IE(_zint(i), _zint(k)))

    def ends(self, e):
        return SInt(self.U(_zint(e))), SInt(self.V(_zint(e)))

    def specs(self):
        w, case = self, self.case
        mark = {}

        # ---- loop 0 / 1: per vertex, per incident entry
        def head0(ns):
            mark["P0"] = len(w.posted)
            return None

        def end0(ns, token):
            i = ns.i
            newp = w.posted[mark["P0"]:]
            check("two-constraints-per-vertex-besides-those-of-its-entries", len(newp) == 2)
            if len(newp) != 2:
                return
            c1, c2 = newp
            x = _then(c1, "root", i)
            check("a-root-carries-its-own-number-as-group-id", x is not None and _cmp(x, "cmp:Eq", lambda a: _int(a, "gid", i), lambda b: _eq(b, i), sym=True))
            ok = isinstance(c2, T) and c2.tag == "cmp:Eq" and len(c2.parts) == 2
            check("the-parent-constraint-is-an-equation", ok)
            if not ok:
                return
            a, b = c2.parts
            if not (isinstance(a, T) and a.tag == "count_true"):
                a, b = b, a
            ln = SInt(w.LEN(_zint(i)))
            ok = isinstance(a, T) and a.tag == "count_true" and len(a.parts) == 1
            check("counting-one-item-per-incident-entry", ok and length(a.parts[0]) == ln)
            if ok:
                k = fresh_int("entry")
                requires(And(k >= 0, k < ln))
                j, e = w.entry(i, k)
                it_k = interp().getitem(a.parts[0], k)
                okk = isinstance(it_k, T) and it_k.tag == "bin:BitAnd" and len(it_k.parts) == 2
                check("item-is-a-conjunction", okk)
                if okk:
                    p, q = it_k.parts
                    if not (isinstance(p, T) and p.tag == "flag"):
                        p, q = q, p
                    check("item-says-the-entry's-edge-is-active", _flag(p, "active", e))
                    check("item-says-the-neighbour's-rank-is-smaller", _cmp(q, "cmp:Lt", lambda a_: _int(a_, "rank", j), lambda b_: _int(b_, "rank", i))
                          or _cmp(q, "cmp:Gt", lambda a_: _int(a_, "rank", i), lambda b_: _int(b_, "rank", j)))
            check("equal-to-0-for-a-root-else-1", isinstance(b, T) and b.tag == "cond" and _flag(b.parts[0], "root", i) and b.parts[1] == 0 and b.parts[2] == 1)

        def head1(ns):
            mark["P1"] = len(w.posted)
            return None

        def end1(ns, token):
            i, k = ns.i, ns.idx
            j, e = w.entry(i, k)
            newp = w.posted[mark["P1"]:]
            check("one-constraint-per-entry", len(newp) == 1)
            if len(newp) == 1:
                x = _then(newp[0], "active", e)
                check("an-active-edge-joins-different-ranks", x is not None and _cmp(x, "cmp:NotEq", lambda a: _int(a, "rank", j), lambda b: _int(b, "rank", i), sym=True))

        loop_spec(K, 0, inv=lambda ns: [ns.i >= 0], modifies=[], types={"j": "int", "e": "int"}, at_head=head0, at_end=end0)
        loop_spec(K, 1, inv=lambda ns: [ns.i >= 0, ns.i < w.n], modifies=[], types={}, at_head=head1, at_end=end1)

        # ---- loop 2: per edge
        def head2(ns):
            mark["P2"] = len(w.posted)
            return None

        def end2(ns, token):
            e = ns.i
            u, v = w.ends(e)
            newp = w.posted[mark["P2"]:]
            check("one-constraint-per-edge", len(newp) == 1)
            if len(newp) == 1:
                x = _then(newp[0], "active", e)
                check("an-active-edge-joins-equal-group-ids", x is not None and _cmp(x, "cmp:Eq", lambda a: _int(a, "gid", u), lambda b: _int(b, "gid", v), sym=True))

        loop_spec(K, 2, inv=lambda ns: [], modifies=[], types={"u": "int", "v": "int"}, at_head=head2, at_end=end2)
        if case.sizes == "none":
            return

        # ---- loop 3: sizes per vertex
        def head3(ns):
            mark["P3"] = len(w.posted)
            return None

        def end3(ns, token):
            i = ns.i
            newp = w.posted[mark["P3"]:]
            if case.sizes == "int":
                want = 2
            else:
                want = 1 if bool(mk_bool(w.NONE(_zint(i)))) else 2
            check("the-subtree-equation,-and-the-size-equation-exactly-when-a-size-is-given", len(newp) == want)
            if len(newp) != want:
                return
            c = newp[0]
            ok = isinstance(c, T) and c.tag == "cmp:Eq" and len(c.parts) == 2
            check("the-subtree-constraint-is-an-equation", ok)
            if ok:
                a, b = c.parts
                if not _int(b, "down", i):
                    a, b = b, a
                check("for-down[i]", _int(b, "down", i))
                ok2 = isinstance(a, T) and a.tag == "bin:Add" and len(a.parts) == 2
                check("of-a-sum-plus-one", ok2)
                if ok2:
                    sm, one = a.parts
                    if not (isinstance(sm, T) and sm.tag == "sum"):
                        sm, one = one, sm
                    ln = SInt(w.LEN(_zint(i)))
                    ok3 = isinstance(sm, T) and sm.tag == "sum" and _eq(one, 1)
                    check("of-a-sum-plus-one/shape", ok3 and length(sm.parts[0]) == ln)
                    if ok3:
                        k = fresh_int("entry")
                        requires(And(k >= 0, k < ln))
                        j, e = w.entry(i, k)
                        it_k = interp().getitem(sm.parts[0], k)
                        okk = isinstance(it_k, T) and it_k.tag == "cond" and len(it_k.parts) == 3
                        check("summand-is-a-conditional", okk)
                        if okk:
                            cnd, th, el = it_k.parts
                            okc = isinstance(cnd, T) and cnd.tag == "bin:BitAnd" and len(cnd.parts) == 2
                            check("on-a-conjunction", okc)
                            if okc:
                                p, q = cnd.parts
                                if not (isinstance(p, T) and p.tag == "flag"):
                                    p, q = q, p
                                check("the-entry's-edge-is-active", _flag(p, "active", e))
                                check("and-the-neighbour's-rank-is-larger", _cmp(q, "cmp:Gt", lambda a_: _int(a_, "rank", j), lambda b_: _int(b_, "rank", i))
                                      or _cmp(q, "cmp:Lt", lambda a_: _int(a_, "rank", i), lambda b_: _int(b_, "rank", j)))
                            check("then-the-neighbour's-down-value-else-0", _int(th, "down", j) and _eq(el, 0))
            if want == 2:
                s_ = w.sizes if case.sizes == "int" else SInt(w.SIZE(_zint(i)))
                check("total[i]-equals-the-given-size", _cmp(newp[1], "cmp:Eq", lambda a_: _int(a_, "total", i), lambda b_: _eq(b_, s_), sym=True))

        loop_spec(K, 3, inv=lambda ns: [ns.i >= 0], modifies=[], types={"s": "opaque", "gi": "opaque"}, at_head=head3, at_end=end3)
        if case.sizes != "list":
            return

        def head4(ns):
            mark["P4"] = len(w.posted)
            return None

        def end4(ns, token):
            e = ns.i
            u, v = w.ends(e)
            newp = w.posted[mark["P4"]:]
            check("one-size-constraint-per-edge", len(newp) == 1)
            if len(newp) == 1:
                x = _then(newp[0], "active", e)
                check("an-active-edge-joins-equal-totals", x is not None and _cmp(x, "cmp:Eq", lambda a: _int(a, "total", u), lambda b: _int(b, "total", v), sym=True))

        loop_spec(K, 4, inv=lambda ns: [], modifies=[], types={"u": "int", "v": "int", "s": "opaque", "t": "opaque"}, at_head=head4, at_end=end4)

    def final_checks(self, o):
        w, case, n, m = self, self.case, self.n, self.m
        want = ["int", "int", "bool", "bool"] + (["int", "int"] if case.sizes != "none" else [])
        ok = [c[0] for c in w.created] == want
        check("arrays-created-in-order:ids,ranks,root-flags,edge-flags(,down,total)", ok)
        if not ok:
            return
        c = w.created
        check("domains:[0,n-1]-for-ids-and-ranks;one-flag-per-vertex-and-per-edge",
              And(c[0][1] == n, c[0][2] == 0, c[0][3] == n - 1, c[1][1] == n, c[1][2] == 0, c[1][3] == n - 1, c[2][1] == n, c[3][1] == m))
        if case.sizes != "none":
            check("domains:[1,n]-for-down-and-total", And(c[4][1] == n, c[4][2] == 1, c[4][3] == n, c[5][1] == n, c[5][2] == 1, c[5][3] == n))
        A = w.arrays
        outside = w.posted
        check("posted-outside-the-loops:1-constraint-(3-with-sizes)", len(outside) == (1 if case.sizes == "none" else 3))
        if len(outside) >= 1:
            check("roots-are-the-rank-0-vertices", _cmp(outside[0], "arr:cmp:Eq", lambda a: a is A["root"],
                                                         lambda b: _cmp(b, "arr:cmp:Eq", lambda x: x is A["rank"], lambda y: _eq(y, 0)), sym=True))
        if case.sizes != "none" and len(outside) == 3:
            check("down<=total", _cmp(outside[1], "arr:cmp:LtE", lambda a: a is A["down"], lambda b: b is A["total"])
                  or _cmp(outside[1], "arr:cmp:GtE", lambda a: a is A["total"], lambda b: b is A["down"]))
            t = outside[2]
            check("a-root's-down-is-its-total", isinstance(t, T) and t.tag == "arr:then" and len(t.parts) == 2 and t.parts[0] is A["root"]
                  and _cmp(t.parts[1], "arr:cmp:Eq", lambda a: a is A["down"], lambda b: b is A["total"], sym=True))
        check("the-group-ids-are-returned", o.value is A["gid"])


@harness("C07", structural=True, cases=[dict(sizes="none"), dict(sizes="int"), dict(sizes="list")])
def variable_groups_emission(case):
    if CTX.mode != "sym":
        return
    w = World(case)
    w.specs()
    o = call(REAL(GR, "_division_connected_variable_groups"), w.solver, w.g, w.sizes)
    check("no-exception", not o.raised)
    if o.raised:
        return
    w.final_checks(o)


@harness("C07", structural=True, cases=[dict(sizes="list", lens="ok"), dict(sizes="list", lens="sizes"), dict(sizes="list", lens="borders")])
def with_borders_emission(case):
    """non-native route of the `_with_borders` variant: ValueError for sequences of the wrong length; otherwise the plain
    encoder is called with the same graph and sizes and one constraint per edge ties the border flag to differing ids"""
    if CTX.mode != "sym":
        return
    w = World(case)
    n, m = w.n, w.m
    gid = IntArr("gid", n)
    calls = []

    def groups(it, a, k):
        calls.append((a, k))
        return gid

    use_contract(K, groups)
    nb = sint("len_is_border")
    requires(nb >= 0)
    if case.lens == "ok":
        requires(nb == m)
    elif case.lens == "borders":
        requires(nb != m)

    class Sizes2(GhostVal):
        pv_pytype = "list"

        def pv_len(self):
            return n + 1 if case.lens == "sizes" else n

    class Borders(GhostVal):
        pv_pytype = "list"

        def pv_len(self):
            return nb

        def pv_getitem(self, j):
            if not bool((j >= 0) & (j < nb)):
                raise PyRaise(IndexError("list index out of range"))
            return T("border", j)

    sizes, borders = Sizes2(), Borders()
    mark = {}

    def head(ns):
        mark["P"] = len(w.posted)
        return None

    def end(ns, token):
        e = ns.i
        u, v = w.ends(e)
        newp = w.posted[mark["P"]:]
        check("one-constraint-per-edge", len(newp) == 1)
        if len(newp) == 1:
            c = newp[0]
            ok = isinstance(c, T) and c.tag == "cmp:Eq" and len(c.parts) == 2
            check("it-is-an-equivalence", ok)
            if ok:
                a, b = c.parts
                if not (isinstance(a, T) and a.tag == "border"):
                    a, b = b, a
                check("of-this-edge's-border-flag", isinstance(a, T) and a.tag == "border" and _eq(a.parts[0], e))
                check("with-'the-group-ids-of-its-ends-differ'", _cmp(b, "cmp:NotEq", lambda x: _int(x, "gid", u), lambda y: _int(y, "gid", v), sym=True))

    loop_spec(KB, 0, inv=lambda ns: [], modifies=[], types={"u": "int", "v": "int"}, at_head=head, at_end=end)
    o = call(REAL(GR, "_division_connected_variable_groups_with_borders"), w.solver, w.g, sizes, borders, False)
    if case.lens != "ok":
        check("sequences-of-the-wrong-length-are-refused", o.exc == "ValueError")
        check("nothing-is-posted-then", len(calls) == 0 and len(w.posted) == 0)
        return
    check("no-exception", not o.raised)
    if o.raised:
        return
    ok = len(calls) == 1
    check("the-plain-encoder-is-called-once", ok)
    if ok:
        a, k = calls[0]
        check("on-the-same-solver,-graph-and-sizes", len(a) == 3 and not k and a[0] is w.solver and a[1] is w.g and a[2] is sizes)
    check("nothing-else-is-posted-outside-the-loop", len(w.posted) == 0)
