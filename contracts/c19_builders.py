"""C19 — contracts of the neighbourhood builders (cspuz/generator/builder.py), proved for every board size:

  ArrayBuilder2D.candidates(current): every proposed update is a list of (y, x, v) with (y, x) on the board and v
      drawn from the builder's choice set (or, for moves, the value of another cell of the current problem); with
      symmetry the set of non-default cells stays point symmetric (an update touches a cell and its mirror cell
      together, or replaces one non-default value by another); with an adjacency option a cell is set to a
      non-default value only when no cell at a forbidden offset currently holds a non-default value (and the mirror
      cell is not itself at a forbidden offset);
  ArrayBuilder2D.copy_with_update(previous, update): a deep copy that differs from `previous` exactly at the listed
      cells, where it holds the listed values (last write wins); `previous` is never written;
  Choice: candidates are the choice values other than the current one, copy_with_update returns the update.
build_neighbor_generator (closures + a generator) is outside the subset: bounded tier.
"""
import z3 as _z3

from pyvc.api import *
from pyvc.values import VList, HostFn, GhostVal, HostModule
from pyvc.sym import _zint

BU = "cspuz/generator/builder.py"
KC = BU + "::ArrayBuilder2D.candidates"
I = _z3.IntSort()
OFFS4 = [(-1, 0), (1, 0), (0, -1), (0, 1)]


class Grid(GhostVal):
    """a height x width list of lists seen through CUR(y, x); writes are recorded (never expected on `previous`)"""
    pv_pytype = "list"

    def __init__(self, h, w, CUR, writes=None, name="current"):
        self.h, self.w, self.CUR, self.writes, self.name = h, w, CUR, writes, name

    def pv_len(self):
        return self.h

    def pv_getitem(self, y):
        if not bool((y >= 0) & (y < self.h)):
            check("%s-row-index-in-range" % self.name, False)
            raise PathEnd("row out of range")
        return GridRow(self, y)

    def pv_deepcopy(self):
        log = []
        g = Grid(self.h, self.w, self.CUR, log, "copy")
        g.source = self
        return g


class GridRow(GhostVal):
    pv_pytype = "list"

    def __init__(self, g, y):
        self.g, self.y = g, y

    def pv_getitem(self, x):
        if not bool((x >= 0) & (x < self.g.w)):
            check("%s-column-index-in-range" % self.g.name, False)
            raise PathEnd("column out of range")
        return SInt(self.g.CUR(_zint(self.y), _zint(x)))

    def pv_setitem(self, x, v):
        if self.g.writes is None:
            check("%s-is-never-written" % self.g.name, False)
            raise PathEnd("write to the input")
        check("write-position-on-the-board", (x >= 0) & (x < self.g.w))
        self.g.writes.append((self.y, x, v))


def _choice():
    """a choice set of three values, the default being the first or not among them at all is excluded by requires"""
    c = [sint("c0"), sint("c1"), sint("c2")]
    requires(And(c[0] != c[1], c[0] != c[2], c[1] != c[2]))
    return c


def _rand_module(h, w):
    def randint(it, a, k):
        lo, hi = a
        r = fresh_int("rand")
        requires(And(r >= lo, r <= hi))
        return r

    def choice(it, a, k):
        items = it.iterate(a[0])
        if not items:
            raise PyRaise(IndexError("choice from an empty sequence"))
        r = fresh_int("pick")
        requires(And(r >= 0, r < len(items)))
        for i, x in enumerate(items):
            if bool(r == i):
                return x
        raise PathEnd("unreachable")

    return HostModule("srandom", {"randint": HostFn(randint, "srandom.randint", raw=True), "choice": HostFn(choice, "srandom.choice", raw=True)})


@harness("C19", cases=[dict(symmetry=s, adjacent=a, move=m) for s in (False, True) for a in (False, True, "list") for m in (False, True)], max_paths=6000)
def array_builder_candidates(case):
    if CTX.mode != "sym":
        return
    h, w = sint("height"), sint("width")
    requires(And(h >= 1, w >= 1))
    choice = _choice()
    default = choice[0]
    CUR = _z3.Function("CUR", I, I, I)
    cur = Grid(h, w, CUR)
    if case.adjacent == "list":
        # the caller's own list of forbidden offsets: two arbitrary offsets other than (0, 0)
        OFFS = [(sint("dy0"), sint("dx0")), (sint("dy1"), sint("dx1"))]
        for (dy, dx) in OFFS:
            requires(Or(dy != 0, dx != 0))
        adjacent_arg = mklist(list(OFFS))
    else:
        OFFS = OFFS4
        adjacent_arg = case.adjacent
    b = call(construct, CLS(BU, "ArrayBuilder2D"), h, w, mklist(choice), default, disallow_adjacent=adjacent_arg, symmetry=case.symmetry, use_move=case.move)
    check("constructor-no-exception", not b.raised)
    if b.raised:
        return
    builder = b.value

    def in_choice(v):
        return Or(*[v == c for c in choice])

    def cell_in_choice(y, x):
        """ground instance of the precondition: the current problem is over the choice set"""
        assume_fact(mk_bool(_z3.Or(*[CUR(_zint(y), _zint(x)) == c.t for c in choice])))

    def on_append(ns, value):
        if not (isinstance(value, VList) and value.is_concrete() and all(isinstance(t, tuple) and len(t) == 3 for t in value.items)):
            raise OutOfSubset("an update is not a list of (y, x, v) triples")
        ups = value.items
        for (y, x, v) in ups:
            check("position-on-the-board", And(y >= 0, y < h, x >= 0, x < w))
        for (y, x, v) in ups:
            cell_in_choice(y, x)
        is_move = len(ups) in (2, 4) and case.move and bool(Or(*[And(ups[0][0] == ns_y, ups[0][1] == ns_x) for ns_y, ns_x in [(ups[0][0], ups[0][1])]])) and _looks_like_move(ups, CUR)
        for (y, x, v) in ups:
            check("value-from-the-choice-set", in_choice(v))
        if case.symmetry:
            # the non-default support stays point symmetric
            if len(ups) == 1:
                (y, x, v) = ups[0]
                check("single-cell-update-under-symmetry-keeps-the-support", And(SInt(CUR(_zint(y), _zint(x))) != default, v != default))
            elif len(ups) == 2:
                (y, x, v), (y2, x2, v2) = ups
                check("second-cell-is-the-mirror-cell", And(y2 == h - 1 - y, x2 == w - 1 - x))
                check("both-default-or-both-non-default", (v == default) == (v2 == default))
            elif len(ups) == 4:
                check("a-symmetric-move-touches-the-mirror-cells-too",
                      And(ups[2][0] == h - 1 - ups[0][0], ups[2][1] == w - 1 - ups[0][1], ups[3][0] == h - 1 - ups[1][0], ups[3][1] == w - 1 - ups[1][1]))
            else:
                check("update-shape-under-symmetry", False)
        if case.adjacent and not (case.move and len(ups) in (2, 4) and _is_swap(ups, CUR)):
            for (y, x, v) in ups[:1]:
                if bool(v != default):
                    for (dy, dx) in OFFS:
                        ny, nx = y + dy, x + dx
                        check("no-non-default-neighbour-at-a-forbidden-offset",
                              implies(And(ny >= 0, ny < h, nx >= 0, nx < w), SInt(CUR(_zint(ny), _zint(nx))) == default))
                    if case.symmetry and len(ups) == 2:
                        y2, x2 = ups[1][0], ups[1][1]
                        check("mirror-cell-not-at-a-forbidden-offset", And(*[Not(And(y2 - y == dy, x2 - x == dx)) for dy, dx in OFFS]))

    watch("append", KC, "ret", on_append)
    T = {"ret": "list:ref", "y": "int", "x": "int", "y1": "int", "x1": "int", "y2": "int", "x2": "int", "y1b": "int", "x1b": "int", "y2b": "int", "x2b": "int",
         "default_only": "bool", "v": "opaque", "v2": "opaque"}
    # loops of candidates() in source order: 0-2 symmetric moves (y1, x1, 10 tries), 3-5 plain moves (y, x, 10 tries),
    # 6/7 cells (y, x), 8 forbidden offsets, 9/10 non-default values; the "10 tries" loops are treated by invariant
    for o_ in range(0, 12):
        loop_spec(KC, o_, inv=lambda ns: [], modifies=["ret"], types=dict(T), abstract=o_ in (2, 5))
    with override_global(BU, "srandom", _rand_module(h, w)):
        o = call(REAL(BU, "ArrayBuilder2D.candidates"), builder, cur)
    check("no-exception", not o.raised)


def _is_swap(ups, CUR):
    """move updates exchange the values of two cells (and of their mirror cells): values are current values"""
    def curv(y, x):
        return SInt(CUR(_zint(y), _zint(x)))
    if len(ups) == 2:
        (y, x, v), (y2, x2, v2) = ups
        return bool(And(v == curv(y2, x2), v2 == curv(y, x), v != v2))
    if len(ups) == 4:
        (y, x, v), (y2, x2, v2) = ups[0], ups[1]
        return bool(And(v == curv(y2, x2), v2 == curv(y, x), v != v2))
    return False


def _looks_like_move(ups, CUR):
    return False


@harness("C19")
def array_builder_copy_with_update(case):
    """deep copy, then exactly the listed writes; the input is never written"""
    if CTX.mode != "sym":
        return
    h, w = sint("height"), sint("width")
    requires(And(h >= 1, w >= 1))
    CUR = _z3.Function("CUR", I, I, I)
    prev = Grid(h, w, CUR, None, "previous")
    ups = []
    for k in range(2):
        y, x, v = sint("y%d" % k), sint("x%d" % k), sint("v%d" % k)
        requires(And(y >= 0, y < h, x >= 0, x < w))
        ups.append((y, x, v))
    b = OBJ(BU, "ArrayBuilder2D", height=h, width=w)
    o = call(REAL(BU, "ArrayBuilder2D.copy_with_update"), b, prev, mklist(ups))
    check("no-exception", not o.raised)
    if o.raised:
        return
    r = o.value
    check("result-is-a-copy-not-the-input", isinstance(r, Grid) and r is not prev and getattr(r, "source", None) is prev)
    if isinstance(r, Grid) and r.writes is not None:
        check("exactly-the-listed-writes-in-order", len(r.writes) == 2 and And(*[And(a[0] == b_[0], a[1] == b_[1], a[2] == b_[2]) for a, b_ in zip(r.writes, ups)]))


@harness("C19")
def choice_builder(case):
    if CTX.mode != "sym":
        return
    choice = _choice()
    cur = sint("current")
    b = call(construct, CLS(BU, "Choice"), mklist(choice), choice[0])
    check("constructor-no-exception", not b.raised)
    if b.raised:
        return
    check("initial-is-the-default", call(REAL(BU, "Choice.initial"), b.value).value == choice[0])
    o = call(REAL(BU, "Choice.candidates"), b.value, cur)
    check("no-exception", not o.raised)
    if o.raised:
        return
    cands = interp().iterate(o.value)
    check("candidates-have-known-length", cands is not None)
    if cands is not None:
        for c in cands:
            check("candidate-from-the-choice-set-and-different-from-the-current-value", And(Or(*[c == x for x in choice]), c != cur))
        for x in choice:
            check("every-other-choice-value-is-a-candidate", implies(x != cur, Or(*[c == x for c in cands]) if cands else False))
    u = sint("update")
    o2 = call(REAL(BU, "Choice.copy_with_update"), b.value, cur, u)
    check("copy-with-update-returns-the-new-value", And(not o2.raised, o2.value == u))
