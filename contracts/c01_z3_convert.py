"""C01 — per-operator translation contract of cspuz/backend/z3.py::_convert_expr (K2).

Structural induction: for a non-leaf node e, _convert_expr(e) depends only on e.op and on the
translations of e.operands (the recursive calls are replaced by their contract: the translation of
child c is a z3 term whose value under an arbitrary model is val(c)).  z3 terms are represented by
their VALUE under that arbitrary model (SInt/SBool); the z3py functions used (Not, And, Or, Xor, If,
Distinct, BoolVal, IntVal and the overloaded operators of ExprRef) have assumed contracts: they build
the term with the corresponding meaning.  Obligation: value(result) == den_op(values of the children).
"""
import z3 as _z3

from pyvc.api import *
from pyvc.values import HostModule, HostFn, Opaque

ZB = "cspuz/backend/z3.py"
EX = "cspuz/expr.py"
CE = ZB + "::_convert_expr"


def _z3_model():
    """assumed contracts of the z3py API on value-level terms"""
    def lst(args):
        if len(args) == 1 and isinstance(args[0], VList):
            return [item(args[0], j) for j in range(length(args[0]))]
        return list(args)

    def f_not(it, a, k):
        return Not(a[0])

    def f_and(it, a, k):
        xs = lst(a)
        return And(*xs) if xs else True

    def f_or(it, a, k):
        xs = lst(a)
        return Or(*xs) if xs else False

    def f_xor(it, a, k):
        return Not(a[0] == a[1]) if not isinstance(a[0] == a[1], bool) else (a[0] != a[1])

    def f_if(it, a, k):
        return ite(a[0], a[1], a[2]) if not isinstance(a[0], bool) else (a[1] if a[0] else a[2])

    def f_distinct(it, a, k):
        xs = lst(a)
        if not xs:
            raise PyRaise(_z3.Z3Exception("At least one of the arguments must be a Z3 expression"))
        return And(*[Not(xs[i] == xs[j]) for i in range(len(xs)) for j in range(i)]) if len(xs) > 1 else True

    ident = lambda it, a, k: a[0]
    fns = dict(Not=f_not, And=f_and, Or=f_or, Xor=f_xor, If=f_if, Distinct=f_distinct, BoolVal=ident, IntVal=ident)
    return HostModule("z3", {n: HostFn(f, "z3." + n, raw=True) for n, f in fns.items()})


OPS = {
    "NEG": ("int", ["int"]), "EQ": ("bool", ["int", "int"]), "NE": ("bool", ["int", "int"]), "LE": ("bool", ["int", "int"]),
    "LT": ("bool", ["int", "int"]), "GE": ("bool", ["int", "int"]), "GT": ("bool", ["int", "int"]), "NOT": ("bool", ["bool"]),
    "XOR": ("bool", ["bool", "bool"]), "IFF": ("bool", ["bool", "bool"]), "IMP": ("bool", ["bool", "bool"]),
    "IF": ("int", ["bool", "int", "int"]),
}
NARY = {"ADD": ("int", "int", (1, 2, 3, 4)), "SUB": ("int", "int", (1, 2, 3, 4)), "AND": ("bool", "bool", (0, 1, 2, 3)),
        "OR": ("bool", "bool", (0, 1, 2, 3)), "ALLDIFF": ("bool", "int", (0, 1, 2, 3))}


def _den(op, v):
    if op == "NEG":
        return -v[0]
    if op == "ADD":
        r = v[0]
        for x in v[1:]:
            r = r + x
        return r
    if op == "SUB":
        r = v[0]
        for x in v[1:]:
            r = r - x
        return r
    if op == "EQ":
        return v[0] == v[1]
    if op == "NE":
        return v[0] != v[1]
    if op == "LE":
        return v[0] <= v[1]
    if op == "LT":
        return v[0] < v[1]
    if op == "GE":
        return v[0] >= v[1]
    if op == "GT":
        return v[0] > v[1]
    if op == "NOT":
        return Not(v[0])
    if op == "AND":
        return And(*v) if v else True
    if op == "OR":
        return Or(*v) if v else False
    if op == "IFF":
        return v[0] == v[1]
    if op == "XOR":
        return Not(v[0] == v[1])
    if op == "IMP":
        return implies(v[0], v[1])
    if op == "IF":
        return ite(v[0], v[1], v[2])
    if op == "ALLDIFF":
        return And(*[Not(v[i] == v[j]) for i in range(len(v)) for j in range(i)]) if len(v) > 1 else True
    raise ValueError(op)


def _cases():
    out = [dict(op=o, arity=len(k[1])) for o, k in OPS.items()]
    for o, (_, _, ars) in NARY.items():
        out += [dict(op=o, arity=a) for a in ars]
    return out


@harness("C01", cases=_cases())
def convert_operator(case):
    """value(_convert_expr(e)) == den_op(values of the translated operands), result is a term (never None)"""
    if CTX.mode != "sym":
        return
    Op = CLS(EX, "Op")
    if case.op in OPS:
        rk, kinds = OPS[case.op]
    else:
        rk, k1, _ = NARY[case.op]
        kinds = [k1] * case.arity
    children, vals = [], []
    for j, kd in enumerate(kinds):
        # a child is an expression of UNKNOWN shape: the contract covers code that hands it to the recursive call; code that looks
        # at its operator or operands (a peephole rewrite over nested nodes) is outside this per-operator contract
        c = OBJ(EX, "BoolExpr" if kd == "bool" else "IntExpr", op=Opaque("operator of a child node"), operands=Opaque("operands of a child node"))
        children.append(c)
        vals.append(sbool("v%d" % j) if kd == "bool" else sint("v%d" % j))
    e = OBJ(EX, "BoolExpr" if rk == "bool" else "IntExpr", op=attr(Op, case.op), operands=mklist(children))
    vd = mkdict({})

    def rec(it, args, kwargs):
        x, d = args
        check("recursive-call-passes-the-same-variable-table", d is vd)
        for c, v in zip(children, vals):
            if x is c:
                return v
        check("recursive-call-on-an-operand", False)
        raise PathEnd("unknown child")

    use_contract(CE, rec)
    with override_global(ZB, "z3", _z3_model()):
        o = call(REAL(ZB, "_convert_expr"), e, vd)
    if case.op == "ALLDIFF" and case.arity == 0 and o.raised:
        check("no-exception", False)
        return
    check("no-exception", not o.raised)
    if o.raised:
        return
    check("result-is-a-term", o.value is not None)
    if o.value is None:
        return
    want = _den(case.op, vals)
    got = o.value
    check("value-equals-operator-meaning", got == want)


@harness("C01", cases=[dict(kind=k) for k in ("bool-literal", "int-literal", "bool-constant", "int-constant", "bool-var", "int-var", "foreign")])
def convert_leaf(case):
    """leaves: Python literals and constant nodes translate to the constant; variables to their entry in the
    variable table; anything else is rejected with TypeError"""
    if CTX.mode != "sym":
        return
    Op = CLS(EX, "Op")
    with override_global(ZB, "z3", _z3_model()):
        f = REAL(ZB, "_convert_expr")
        if case.kind == "bool-literal":
            b = sbool("b")
            o = call(f, b, mkdict({}))
            check("literal", And(not o.raised, o.value == b))
        elif case.kind == "int-literal":
            i = sint("i")
            o = call(f, i, mkdict({}))
            check("literal", And(not o.raised, o.value == i))
        elif case.kind == "bool-constant":
            for v in (True, False):
                o = call(f, OBJ(EX, "BoolExpr", op=attr(Op, "BOOL_CONSTANT"), operands=mklist([v])), mkdict({}))
                check("constant-%s" % v, And(not o.raised, o.value is v))
        elif case.kind == "int-constant":
            i = sint("i")
            o = call(f, OBJ(EX, "IntExpr", op=attr(Op, "INT_CONSTANT"), operands=mklist([i])), mkdict({}))
            check("constant", And(not o.raised, o.value == i))
        elif case.kind in ("bool-var", "int-var"):
            t0, t1 = Opaque("term0"), Opaque("term1")
            cls = "BoolVar" if case.kind == "bool-var" else "IntVar"
            v = OBJ(EX, cls, op=attr(Op, "VAR"), operands=mklist([]), id=1, lo=0, hi=3)
            o = call(f, v, mkdict({0: t0, 1: t1}))
            check("variable-maps-to-its-own-term", And(not o.raised, o.value is t1))
        else:
            o = call(f, "text", mkdict({}))
            check("foreign-value-rejected", o.exc == "TypeError")
