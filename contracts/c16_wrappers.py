"""C16 — the thin layers between a puzzle's URL functions and its combinator, so that the round trip of a body proved
under C15 (leaf contracts -> step contracts -> lean/Codecs.lean) reaches the puzzle's own serialize_* / deserialize_*.

  serialize_problem(c, problem, height=h, width=w)    one call  c.serialize(env, [problem], 0)  with env = (h, w); its
                                                      text is returned; an answer None is an AssertionError (no result)
  deserialize_problem(c, text, height=h, width=w)     one call  c.deserialize(env, text, 0)  with env = (h, w); None is
                                                      passed on; otherwise the single item is returned, ValueError when
                                                      the decoder produced another number of items
  serialize_<puzzle>(problem)                         serialize_problem_as_url(<THE puzzle combinator>, <pzpr name>,
                                                      len(problem), len(problem[0]), problem)   (height first)
  deserialize_<puzzle>(url)                           deserialize_problem_as_url(<THE SAME combinator object>, url,
                                                      allowed_puzzles=<names including the one written>)

With the URL frame (c16_url_frame.py: the body is serialised under (height, width) and written after name/WIDTH/HEIGHT;
the decoder hands the body back under HEIGHT = third field, WIDTH = second field) and `C15.problem_roundtrip`, this gives
deserialize_<puzzle>(serialize_<puzzle>(p)) == p for every board p in the combinator's domain, for the puzzles listed as
covered in C15's evidence (nurikabe, nurimisaki, sudoku, slitherlink, masyu; yajilin on the domain of c16_yajilin_clue.py).  The second half of C16 (the text is what
puzz.link's own decoder reads) stays with the bounded tier and the independent decoder specs/pzpr.py.
"""
import z3 as _z3

from pyvc.api import *
from pyvc.values import VList, HostFn, GhostVal, Opaque, VObj

PS = "cspuz/problem_serializer.py"

PUZZLES = [dict(mod="nurikabe", fn="nurikabe", comb="NURIKABE_COMBINATOR", name="nurikabe"),
           dict(mod="nurimisaki", fn="nurimisaki", comb="NURIMISAKI_COMBINATOR", name="nurimisaki"),
           dict(mod="sudoku", fn="sudoku", comb="SUDOKU_COMBINATOR", name="sudoku"),
           dict(mod="slitherlink", fn="slitherlink", comb="SLITHERLINK_COMBINATOR", name="slither"),
           dict(mod="masyu", fn="masyu", comb="MASYU_COMBINATOR", name="masyu"),
           dict(mod="yajilin", fn="yajilin", comb="YAJILIN_COMBINATOR", name="yajilin")]


class Comb(GhostVal):
    """an arbitrary combinator object: calls are logged and answered as prepared"""

    def __init__(self, log, answer):
        self.log, self.answer = log, answer

    def pv_getattr(self, name):
        if name not in ("serialize", "deserialize"):
            raise OutOfSubset("combinator attribute %s" % name)

        def f(it, a, k):
            self.log.append((name, tuple(a), dict(k)))
            return self.answer
        return HostFn(f, "combinator." + name, raw=True)


@harness("C16", cases=[dict(answer="text"), dict(answer="none")])
def serialize_problem_contract(case):
    if CTX.mode != "sym":
        return
    h, w = sint("height"), sint("width")
    log = []
    text = sstr("body")
    comb = Comb(log, (sint("consumed"), text) if case.answer == "text" else None)
    problem = Opaque("problem")
    o = call(REAL(PS, "serialize_problem"), comb, problem, height=h, width=w)
    ok = len(log) == 1 and log[0][0] == "serialize" and len(log[0][1]) == 3 and not log[0][2]
    check("the-combinator-is-asked-once-to-serialize", ok)
    if ok:
        env, data, idx = log[0][1]
        check("under-the-given-height-and-width", isinstance(env, VObj) and And(attr(env, "height") == h, attr(env, "width") == w))
        check("about-the-one-item-list-[problem]-at-index-0", is_list(data) and length(data) == 1 and item(data, 0) is problem and idx == 0)
    if case.answer == "none":
        check("a-refused-problem-has-no-result", o.exc == "AssertionError")
    else:
        check("the-combinator's-text-is-the-result", And(not o.raised, o.value == text))


@harness("C16", cases=[dict(answer="one"), dict(answer="none"), dict(answer="other")])
def deserialize_problem_contract(case):
    if CTX.mode != "sym":
        return
    h, w = sint("height"), sint("width")
    log = []
    text = sstr("body")
    problem = Opaque("problem")
    if case.answer == "one":
        ans = (sint("consumed"), mklist([problem]))
    elif case.answer == "other":
        items = VList([])
        items.havoc("ref")
        requires(length(items) != 1)
        ans = (sint("consumed"), items)
    else:
        ans = None
    comb = Comb(log, ans)
    o = call(REAL(PS, "deserialize_problem"), comb, text, height=h, width=w)
    ok = len(log) == 1 and log[0][0] == "deserialize" and len(log[0][1]) == 3 and not log[0][2]
    check("the-combinator-is-asked-once-to-deserialize", ok)
    if ok:
        env, data, idx = log[0][1]
        check("under-the-given-height-and-width", isinstance(env, VObj) and And(attr(env, "height") == h, attr(env, "width") == w))
        check("about-the-whole-text-from-index-0", (data is text or (isinstance(data, (str, SStr)) and data == text)) and idx == 0)
    if case.answer == "none":
        check("None-is-passed-on", And(not o.raised, o.value is None))
    elif case.answer == "one":
        check("the-single-item-is-the-result", And(not o.raised, o.value is problem))
    else:
        check("another-number-of-items-is-a-ValueError", o.exc == "ValueError")


@harness("C16", cases=[dict(p) for p in PUZZLES])
def puzzle_wrappers(case):
    """serialize_<puzzle> / deserialize_<puzzle> hand the module's one combinator object, the pzpr name and (height, width)
    = (number of rows, length of the first row) to the URL layer, and the decoder admits the name the encoder writes"""
    if CTX.mode != "sym":
        return
    MOD = "cspuz/puzzle/%s.py" % case.mod
    comb = GLOBAL(MOD, case.comb)
    nrows, ncols = sint("rows"), sint("cols")
    requires(And(nrows >= 1, ncols >= 0))
    seen = {}

    class Row(GhostVal):
        pv_pytype = "list"

        def pv_len(self):
            return ncols

    class Board(GhostVal):
        pv_pytype = "list"

        def pv_len(self):
            return nrows

        def pv_getitem(self, i):
            check("only-the-first-row-is-measured", i == 0)
            return Row()

    problem = Board()
    url = sstr("url")

    def ser(it, a, k):
        seen["ser"] = (a, k)
        return url

    def des(it, a, k):
        seen["des"] = (a, k)
        return Opaque("decoded")

    use_contract(PS + "::serialize_problem_as_url", ser)
    use_contract(PS + "::deserialize_problem_as_url", des)
    o = call(REAL(MOD, "serialize_" + case.fn), problem)
    check("serialize-no-exception", not o.raised)
    ok = "ser" in seen and len(seen["ser"][0]) == 5 and not seen["ser"][1]
    check("the-URL-layer-is-asked-once", ok)
    if ok:
        c, name, h, w, p = seen["ser"][0]
        if c is not comb:
            raise OutOfSubset("the encoder uses another combinator object than the module's")
        check("with-the-module's-combinator", c is comb)
        check("with-the-pzpr-name", name == case.name)
        check("height-is-the-number-of-rows,-width-the-length-of-the-first-row", And(h == nrows, w == ncols))
        check("and-the-problem-itself", p is problem)
        check("its-URL-is-returned", And(not o.raised, o.value == url))
    o2 = call(REAL(MOD, "deserialize_" + case.fn), url)
    check("deserialize-no-exception", not o2.raised)
    ok = "des" in seen
    check("the-URL-layer-is-asked-to-decode", ok)
    if ok:
        a, k = seen["des"]
        allowed = k.get("allowed_puzzles", a[2] if len(a) > 2 else None)
        if len(a) >= 1 and a[0] is not comb:
            # an equal combinator built elsewhere would do as well; equality of combinator objects is not decided here
            raise OutOfSubset("the decoder uses another combinator object than the encoder")
        check("with-the-same-combinator-object", len(a) >= 2 and a[0] is comb and a[1] is url)
        names = [allowed] if isinstance(allowed, (str, SStr)) else (interp().iterate(allowed) if allowed is not None else None)
        check("the-name-written-by-the-encoder-is-admitted", allowed is None or (names is not None and any(isinstance(x, str) and x == case.name for x in names)))
        check("no-size-or-failure-options:-the-problem-is-returned-as-decoded", not k.get("return_size", False) and (len(a) < 5))
        check("its-result-is-returned", not o2.raised and isinstance(o2.value, Opaque))
