"""C10 — emission contract of the degree rules and flag definitions of active_edges_connected_crossable, and the lemma that
carries the whole constraint to the property.

Proved here by pyvc for every frame size and both values of single_cycle (d(y, x) stands for
count_true(is_active_edge.vertex_neighbors(y, x)), the number of active segments at the lattice point, C14):
  * posted once, array-wise:  is_cross -> is_passed;   is_passed_single == (is_passed & ~is_cross);
                              is_passed_double_horizontal == is_cross;   is_passed_double_vertical == is_cross;
  * per lattice point (y, x), in this order:
        ~is_cross[y, x]                                   exactly when the point lies on the border of the lattice,
        ~is_passed[y, x] -> d == 0,     is_passed[y, x] & is_cross[y, x] -> d == 4,
        is_passed[y, x] & ~is_cross[y, x] -> d == 2       (single_cycle)   /   -> d >= 1  and  -> d <= 2   (otherwise);
  * nothing else is posted by the function itself; (is_passed, is_cross) are returned.
The auxiliary graph, the activity list aligned with its nodes and the connectivity call are the contract
`crossable_aux_graph` (c04_graph_plumbing.py); the connectivity constraint itself is C04's lemma.
lean/Crossable.lean (namespace C10) states this schema over an abstract frame (points, segments with two end points and a
direction, border points) and proves  enc_iff_strand:  flags with these constraints exist  <=>  every point meets 0, 1, 2
or 4 active segments (0, 2, 4 for a cycle; 4 never on the border) and the active segments form one strand (segments
sharing an ordinary point are joined, at a 4-way point only the straight pairs), and  flags_determined:
is_passed = "d > 0", is_cross = "d == 4".  Lattice facts used by the lemma (at most two segments of either direction at a
point, at most three at a border point) are geometry of the grid frame (C14's accessor contracts).
"""
import z3 as _z3

from pyvc.api import *
from pyvc.values import VList, HostFn, GhostVal, Opaque, VObj
from pyvc.sym import _zint
from contracts.c09_emission import T

GR = "cspuz/graph.py"
SOLV = "cspuz/solver.py"
GF = "cspuz/grid_frame.py"
CR = GR + "::active_edges_connected_crossable"


def _eq(a, b):
    r = a == b
    return r if isinstance(r, bool) else bool(r)


class Arr2(GhostVal):
    """a 2D flag array: element (y, x) is T('el', name, y, x); whole-array operations are recorded as such"""

    def __init__(self, name, rows, cols):
        self.name, self.rows, self.cols = name, rows, cols

    def pv_getitem(self, key):
        yy, xx = key
        if not bool((yy >= 0) & (yy < self.rows) & (xx >= 0) & (xx < self.cols)):
            raise PyRaise(IndexError("index out of range"))
        return T("el", self.name, yy, xx)

    def pv_getattr(self, name):
        if name == "then":
            return HostFn(lambda it, a, k: T("arr:then", self, *a), "then", raw=True)
        raise OutOfSubset("array .%s" % name)

    def pv_unop(self, opname):
        return T("arr:un:" + opname, self)

    def pv_binop(self, op, other, reflected):
        return T("arr:bin:" + op, *((other, self) if reflected else (self, other)))

    def pv_compare(self, opname, other, reflected):
        return T("arr:cmp:" + opname, *((other, self) if reflected else (self, other)))


def _el(t, name, y, x):
    return isinstance(t, T) and t.tag == "el" and t.parts[0] == name and _eq(t.parts[1], y) and _eq(t.parts[2], x)


def _not(t, inner):
    return isinstance(t, T) and t.tag in ("un:Invert", "arr:un:Invert") and len(t.parts) == 1 and inner(t.parts[0])


def _and(t, pa, pb):
    return isinstance(t, T) and t.tag in ("bin:BitAnd", "arr:bin:BitAnd") and len(t.parts) == 2 and \
        ((pa(t.parts[0]) and pb(t.parts[1])) or (pa(t.parts[1]) and pb(t.parts[0])))


@harness("C10", structural=True, cases=[dict(cycle=False), dict(cycle=True)])
def crossable_degree_rules(case):
    if CTX.mode != "sym":
        return
    fh, fw = sint("frame_h"), sint("frame_w")
    requires(And(fh >= 0, fw >= 0))
    H, W = fh + 1, fw + 1
    arrays, posted = [], []
    names = ["passed", "cross", "single", "dh", "dv"]

    def bool_array(it, args, kwargs):
        shape = args[1]
        a = Arr2(names[len(arrays)] if len(arrays) < len(names) else "extra%d" % len(arrays), shape[0], shape[1])
        arrays.append(a)
        return a

    class Nbrs(GhostVal):
        pv_pytype = "list"

        def __init__(self, y, x):
            self.y, self.x = y, x

    use_contract(SOLV + "::Solver.bool_array", bool_array)
    use_contract(SOLV + "::Solver.ensure", lambda it, a, k: posted.extend(a[1:]))
    use_contract(GR + "::Graph.add_edge", lambda it, a, k: None)
    use_contract(GR + "::active_vertices_connected", lambda it, a, k: None)
    use_contract(GF + "::BoolGridFrame.vertex_neighbors", lambda it, a, k: Nbrs(a[1], a[2]) if len(a) == 3 else Nbrs(a[1][0], a[1][1]))
    use_contract("cspuz/constraints.py::count_true", lambda it, a, k: T("count_true", *a))
    vert, horiz = Arr2("vertical", fh, fw + 1), Arr2("horizontal", fh + 1, fw)
    frame = OBJ(GF, "BoolGridFrame", height=fh, width=fw, horizontal=horiz, vertical=vert, solver=Opaque("s"))
    solver = OBJ(SOLV, "Solver", variables=mklist([]), is_answer_key=mklist([]), constraints=mklist([]))
    mark = {}

    def head(ns):
        mark["p"] = len(posted)
        return None

    def is_d(t, y, x):
        return isinstance(t, T) and t.tag == "count_true" and len(t.parts) == 1 and isinstance(t.parts[0], Nbrs) \
            and _eq(t.parts[0].y, y) and _eq(t.parts[0].x, x)

    def rule(t, cond, tag, value, y, x):
        """t is cond.then(d <tag> value)"""
        if not (isinstance(t, T) and t.tag == "then" and len(t.parts) == 2 and cond(t.parts[0])):
            return False
        c = t.parts[1]
        flip = {"cmp:GtE": "cmp:LtE", "cmp:LtE": "cmp:GtE", "cmp:Eq": "cmp:Eq"}
        if not (isinstance(c, T) and len(c.parts) == 2):
            return False
        return (c.tag == tag and is_d(c.parts[0], y, x) and _eq(c.parts[1], value)) or \
               (c.tag == flip[tag] and is_d(c.parts[1], y, x) and _eq(c.parts[0], value))

    def end(ns, token):
        y, x = ns.y, ns.x
        new = posted[mark["p"]:]
        border = bool(Or(y == 0, y == H - 1, x == 0, x == W - 1))
        want = (1 if border else 0) + (3 if case.cycle else 4)
        check("rules-per-point:(no-cross-on-the-border),-0,-4,-and-2-or-1..2", len(new) == want)
        if len(new) != want:
            return
        passed = lambda t: _el(t, "passed", y, x)
        cross = lambda t: _el(t, "cross", y, x)
        if border:
            check("no-crossing-on-the-border", _not(new[0], cross))
            new = new[1:]
        check("not-passed->no-active-segment", rule(new[0], lambda t: _not(t, passed), "cmp:Eq", 0, y, x))
        check("passed-and-cross->four-active-segments", rule(new[1], lambda t: _and(t, passed, cross), "cmp:Eq", 4, y, x))
        plain = lambda t: _and(t, passed, lambda u: _not(u, cross))
        if case.cycle:
            check("passed-and-not-cross->two-active-segments", rule(new[2], plain, "cmp:Eq", 2, y, x))
        else:
            check("passed-and-not-cross->at-least-one-active-segment", rule(new[2], plain, "cmp:GtE", 1, y, x))
            check("passed-and-not-cross->at-most-two-active-segments", rule(new[3], plain, "cmp:LtE", 2, y, x))

    T_ = {"gv": "list:ref", "x": "int"}
    loop_spec(CR, 0, inv=lambda ns: [ns.y >= 0], modifies=[], types={"x": "int", "d": "opaque"})
    loop_spec(CR, 1, inv=lambda ns: [ns.y >= 0, ns.y < H], modifies=[], types={"d": "opaque"}, at_head=head, at_end=end)
    for k in (2, 4, 6):
        loop_spec(CR, k, inv=lambda ns: [], modifies=["gv"], types=T_)
        loop_spec(CR, k + 1, inv=lambda ns: [], modifies=["gv"], types=T_)
    for k in (8, 10):
        loop_spec(CR, k, inv=lambda ns: [], modifies=[], types={"x": "int", "eid": "int", "v0": "int", "v1": "int"})
        loop_spec(CR, k + 1, inv=lambda ns: [], modifies=[], types={"eid": "int", "v0": "int", "v1": "int"})
    o = call(REAL(GR, "active_edges_connected_crossable"), solver, frame, single_cycle=case.cycle, use_graph_primitive=False)
    check("no-exception", not o.raised)
    if o.raised:
        return
    ok = len(arrays) == 5 and all(_eq(a.rows, H) and _eq(a.cols, W) for a in arrays)
    check("five-flag-arrays-of-the-lattice's-shape", ok)
    if not ok:
        return
    P, C, SG, DH, DV = arrays
    check("posted-outside-the-loops:4-array-constraints", len(posted) == 4)
    if len(posted) == 4:
        t = posted[0]
        check("cross->passed", isinstance(t, T) and t.tag == "arr:then" and t.parts[0] is C and t.parts[1] is P)

        def is_eq(t, a, pb):
            return isinstance(t, T) and t.tag == "arr:cmp:Eq" and len(t.parts) == 2 and ((t.parts[0] is a and pb(t.parts[1])) or (t.parts[1] is a and pb(t.parts[0])))
        check("single==(passed&~cross)", is_eq(posted[1], SG, lambda u: _and(u, lambda v: v is P, lambda v: _not(v, lambda w: w is C))))
        check("double-horizontal==cross", is_eq(posted[2], DH, lambda u: u is C))
        check("double-vertical==cross", is_eq(posted[3], DV, lambda u: u is C))
    r = o.value
    check("returns-(is_passed,-is_cross)", isinstance(r, tuple) and len(r) == 2 and r[0] is P and r[1] is C)
