"""C20 — the back end and encoding actually used are the ones configured (contracts).

Under contract: configuration._get_default/_strtobool/_detect_backend/Config.__init__,
solver._get_backend_by_name/_get_default_backend/_get_backend, Solver.find_answer/solve (dispatch),
the configuration prefix of the graph encoders.
Environment values are arbitrary strings (SMT strings); `str.lower` is uninterpreted; `import m`
raises ImportError iff the symbolic importable[m] is false; os.environ is a symbolic partial map.
"""
import os
import sys
import types

from pyvc.api import *
from pyvc.values import GhostVal, HostFn

CFG = "cspuz/configuration.py"
SOL = "cspuz/solver.py"
TRUE_SP, FALSE_SP = ("true", "1"), ("false", "0")
SPELLINGS = ["true", "True", "TRUE", "1", "false", "False", "0", "yes", "", "2", "tRuE", " true", "on", "no"]


def strtobool_spec(s):
    """returns 'T' / 'F' / 'E' conditions as a triple of booleans"""
    low = py_lower(s)
    t = one_of(low, TRUE_SP)
    f = And(Not(t), one_of(low, FALSE_SP))
    return t, f


@harness("C20", native_inputs=lambda case: [dict(s=x) for x in SPELLINGS])
def strtobool(case):
    """_strtobool: True iff lower(s) in {true, 1}; False iff in {false, 0}; otherwise ValueError (strict)"""
    s = sstr("s")
    o = call(REAL(CFG, "_strtobool"), s)
    t, f = strtobool_spec(s)
    if o.raised:
        check("raises-only-ValueError", o.exc == "ValueError")
        check("raises-only-for-other-spellings", And(Not(t), Not(f)))
    else:
        check("returns-bool", o.value is True or o.value is False)
        if o.value is True:
            check("true-only-for-true-spellings", t)
        else:
            check("false-only-for-false-spellings", f)


MODS = ["cspuz_core", "enigma_csp", "pycsugar", "z3"]
DETECT_NAMES = {"cspuz_core": "cspuz_core", "enigma_csp": "enigma_csp", "pycsugar": "csugar", "z3": "z3"}


class importability:
    """make `import m` succeed / fail as the inputs say (symbolic: ghost map; native: sys.modules)"""

    def __init__(self):
        self.flags = {m: sbool("imp_" + m) for m in MODS}

    def __enter__(self):
        if modelled():
            ghost("importable", {}).update(self.flags)
        else:
            # three native stagings of "not importable": absent (sys.modules[m] = None), or PRESENT ON THE
            # PATH BUT FAILING AT IMPORT (a broken installation: the module file raises ImportError)
            import tempfile
            self.saved = {m: sys.modules.get(m, _NONE) for m in MODS}
            self.tmp = tempfile.mkdtemp(prefix="verif_c20_")
            self.broken = bool(CTX.native_inputs.get("broken", False))
            sys.path.insert(0, self.tmp)
            for m in MODS:
                if self.flags[m]:
                    if m == "z3":
                        import z3 as _z3
                        sys.modules[m] = _z3
                    else:
                        sys.modules[m] = types.ModuleType(m)
                elif self.broken and m != "z3":
                    sys.modules.pop(m, None)
                    with open(os.path.join(self.tmp, m + ".py"), "w") as f:
                        f.write("raise ImportError('broken installation of %s')\n" % m)
                else:
                    sys.modules[m] = None
            import importlib
            importlib.invalidate_caches()
        return self

    def __exit__(self, *a):
        if not modelled():
            import shutil
            for m, v in self.saved.items():
                if v is _NONE:
                    sys.modules.pop(m, None)
                else:
                    sys.modules[m] = v
            if self.tmp in sys.path:
                sys.path.remove(self.tmp)
            shutil.rmtree(self.tmp, ignore_errors=True)
        return False

    def detected(self):
        """spec: the first importable of cspuz_core, enigma_csp, csugar (pycsugar), z3, else sugar"""
        f = self.flags
        return ite(f["cspuz_core"], "cspuz_core", ite(f["enigma_csp"], "enigma_csp",
                   ite(f["pycsugar"], "csugar", ite(f["z3"], "z3", "sugar"))))


_NONE = object()


def _imp_inputs(case):
    import itertools
    for broken in (False, True):
        for bits in itertools.product([False, True], repeat=4):
            d = {"imp_" + m: b for m, b in zip(MODS, bits)}
            d["broken"] = broken
            yield d


@harness("C20", native_inputs=_imp_inputs)
def detect_backend(case):
    """_detect_backend: first importable of cspuz_core, enigma_csp, csugar, z3, else sugar"""
    f = REAL(CFG, "_detect_backend")
    with importability() as imp:
        o = call(f)
        check("no-exception", not o.raised)
        if not o.raised:
            check("first-importable", o.value == imp.detected())


ENV_KEYS = ["CSPUZ_DEFAULT_BACKEND", "CSPUZ_BACKEND_PATH", "CSPUZ_USE_GRAPH_PRIMITIVE", "CSPUZ_USE_GRAPH_DIVISION_PRIMITIVE"]
SHORT = {"CSPUZ_DEFAULT_BACKEND": "db", "CSPUZ_BACKEND_PATH": "bp", "CSPUZ_USE_GRAPH_PRIMITIVE": "gp",
         "CSPUZ_USE_GRAPH_DIVISION_PRIMITIVE": "gdp"}


class environment:
    def __init__(self):
        self.vars = {k: (sbool("has_" + SHORT[k]), sstr("val_" + SHORT[k])) for k in ENV_KEYS}

    def __enter__(self):
        if modelled():
            ghost("environ", {}).update(self.vars)
        else:
            self.saved = {k: os.environ.get(k) for k in ENV_KEYS}
            for k, (p, v) in self.vars.items():
                if p:
                    os.environ[k] = v
                else:
                    os.environ.pop(k, None)
        return self

    def __exit__(self, *a):
        if not modelled():
            for k, v in self.saved.items():
                if v is None:
                    os.environ.pop(k, None)
                else:
                    os.environ[k] = v
        return False

    def get(self, infer, key, default):
        p, v = self.vars[key]
        if infer and p:      # forks in sym mode
            return v
        return default


def _cfg_inputs(case):
    import itertools
    import random
    rnd = random.Random(7)
    names = ["auto", "sugar", "sugar_extended", "z3", "csugar", "enigma_csp", "cspuz_core", "nosuch", "AUTO", ""]
    out = []
    for db_present in (False, True):
        for db in (names if db_present else [""]):
            for _ in range(6):
                d = {"has_db": db_present, "val_db": db, "has_bp": rnd.random() < 0.5, "val_bp": "/x/sugar"}
                d["has_gp"] = rnd.random() < 0.6
                d["val_gp"] = rnd.choice(SPELLINGS)
                d["has_gdp"] = rnd.random() < 0.6
                d["val_gdp"] = rnd.choice(SPELLINGS)
                for m in MODS:
                    d["imp_" + m] = rnd.random() < 0.4
                d["broken"] = rnd.random() < 0.5
                out.append(d)
    return out


@harness("C20", cases=[dict(infer=True), dict(infer=False)], native_inputs=_cfg_inputs, max_paths=20000)
def config_init(case):
    """Config(infer_from_env): default_backend / flags exactly as the statement says"""
    infer = case.infer
    ConfigCls = CLS(CFG, "Config")   # import the module before the environment is staged
    with importability() as imp, environment() as env:
        o = call(construct, ConfigCls, infer)
        db_raw = env.get(infer, "CSPUZ_DEFAULT_BACKEND", "auto")
        exp_db = ite(db_raw == "auto", imp.detected(), db_raw) if not isinstance(db_raw == "auto", bool) else (imp.detected() if db_raw == "auto" else db_raw)
        gp_default = one_of(exp_db, ("csugar", "enigma_csp", "cspuz_core"))
        gdp_default = one_of(exp_db, ("enigma_csp", "cspuz_core"))
        p_gp, v_gp = env.vars["CSPUZ_USE_GRAPH_PRIMITIVE"]
        p_gdp, v_gdp = env.vars["CSPUZ_USE_GRAPH_DIVISION_PRIMITIVE"]
        use_env_gp = And(infer, p_gp)
        use_env_gdp = And(infer, p_gdp)
        t1, f1 = strtobool_spec(v_gp)
        t2, f2 = strtobool_spec(v_gdp)
        bad_gp = And(use_env_gp, Not(t1), Not(f1))
        bad_gdp = And(use_env_gdp, Not(t2), Not(f2))
        if o.raised:
            check("raises-only-ValueError", o.exc == "ValueError")
            check("raises-only-for-invalid-flag-spelling", Or(bad_gp, bad_gdp))
            return
        check("returns-only-for-valid-flag-spellings", And(Not(bad_gp), Not(bad_gdp)))
        cfg = o.value
        check("default_backend", attr(cfg, "default_backend") == exp_db)
        exp_gp = ite(use_env_gp, t1, gp_default) if not isinstance(use_env_gp, bool) else (t1 if use_env_gp else gp_default)
        exp_gdp = ite(use_env_gdp, t2, gdp_default) if not isinstance(use_env_gdp, bool) else (t2 if use_env_gdp else gdp_default)
        gp, gdp = attr(cfg, "use_graph_primitive"), attr(cfg, "use_graph_division_primitive")
        check("flags-are-bools", And(gp is True or gp is False, gdp is True or gdp is False))
        check("use_graph_primitive", gp == exp_gp)
        check("use_graph_division_primitive", gdp == exp_gdp)
        bp = attr(cfg, "backend_path")
        p_bp, v_bp = env.vars["CSPUZ_BACKEND_PATH"]
        if infer and p_bp:
            check("backend_path-from-env", bp == v_bp)
        else:
            check("backend_path-none", bp is None)
        check("solver_timeout-none", attr(cfg, "solver_timeout") is None)
        if CTX.mode == "sym" and not infer:
            check("environment-not-read", len(events("environ_get")) == 0)


NAME_TABLE = {"sugar": "SugarBackend", "sugar_extended": "SugarExtendedBackend", "csugar": "CSugarBackend",
              "enigma_csp": "EnigmaCSPBackend", "cspuz_core": "CspuzCoreBackend"}
ALL_NAMES = list(NAME_TABLE) + ["z3"]


def _cls_of(name):
    if name == "z3":
        return CLS("cspuz/backend/z3.py", "Z3Backend")
    return CLS("cspuz/backend/sugar_like.py", NAME_TABLE[name])


class _Cfg:
    pass


def _fake_config(default_backend):
    if modelled():
        return OBJ(CFG, "Config", default_backend=default_backend, backend_path=None, use_graph_primitive=False,
                   use_graph_division_primitive=False, solver_timeout=None)
    c = _Cfg()
    c.default_backend = default_backend
    c.backend_path = None
    c.solver_timeout = None
    return c


def _gb_inputs(case):
    names = ALL_NAMES + ["auto", "nosuch", "", "Z3", "sugar "]
    for a in names:
        for b in names:
            yield dict(arg=a, cfg_db=b)


@harness("C20", cases=[dict(arg="none"), dict(arg="str"), dict(arg="class")], native_inputs=_gb_inputs)
def get_backend(case):
    """_get_backend(b): the class of the name / of config.default_backend read at call time / the class itself;
    unknown names -> ValueError"""
    cfg_db = sstr("cfg_db")
    with override_global(SOL, "config", _fake_config(cfg_db)):
        if case.arg == "none":
            b, name = None, cfg_db
        elif case.arg == "str":
            b = sstr("arg")
            name = b
        else:
            b = _cls_of("csugar")
            name = None
        o = call(REAL(SOL, "_get_backend"), b)
        if case.arg == "class":
            check("class-passed-through", And(not o.raised, same(o.value, b)))
            return
        known = one_of(name, ALL_NAMES)
        if o.raised:
            check("raises-only-ValueError", o.exc == "ValueError")
            check("raises-only-for-unknown-names", Not(known))
            return
        check("returns-only-for-known-names", known)
        for nm in ALL_NAMES:
            if same(o.value, _cls_of(nm)):
                check("class-of-the-name", name == nm)
                return
        check("returns-a-backend-class", False)


# ---------------------------------------------------------------------------------------------
# dispatch: which back end class receives the solve
SL = "cspuz/backend/sugar_like.py"
Z3B = "cspuz/backend/z3.py"


def _backend_contracts(log):
    state = {"solves": 0}

    def cname(o):
        return attr(attr(o, "__class__"), "__name__") if not isinstance(o, VObj) else o.cls.name

    def init(it, args, kwargs):
        log.append(("init", cname(args[0])))

    def addc(it, args, kwargs):
        log.append(("add_constraint", cname(args[0])))

    def solve(it, args, kwargs):
        log.append(("solve", cname(args[0])))
        state["solves"] += 1
        if state["solves"] == 1:
            return sbool("first_solve_result")
        return False

    def irrefutably(it, args, kwargs):
        log.append(("solve_irrefutably", cname(args[0])))
        return sbool("irrefutable_result")

    for cls in ("SugarLikeBackend",):
        use_contract(SL + "::%s.__init__" % cls, init)
        use_contract(SL + "::%s.add_constraint" % cls, addc)
        use_contract(SL + "::%s.solve" % cls, solve)
        use_contract(SL + "::%s.solve_irrefutably" % cls, irrefutably)
    use_contract(Z3B + "::Z3Backend.__init__", init)
    use_contract(Z3B + "::Z3Backend.add_constraint", addc)
    use_contract(Z3B + "::Z3Backend.solve", solve)


@harness("C20", cases=[dict(fn=f, arg=a) for f in ("find_answer", "solve") for a in ("none", "str")])
def dispatch(case):
    """Solver.find_answer / Solver.solve hand the solve to exactly one back end object, of the class named by
    the call's argument, else by config.default_backend read at call time; unknown names raise ValueError
    before any back end is created"""
    if CTX.mode != "sym":
        return
    cfg_db = sstr("cfg_db")
    arg = sstr("arg") if case.arg == "str" else None
    name = arg if arg is not None else cfg_db
    log = []
    _backend_contracts(log)
    with override_global(SOL, "config", _fake_config(cfg_db)):
        solver = construct(CLS(SOL, "Solver"))
        o = call(REAL(SOL, "Solver." + case.fn), solver, arg)
    known = one_of(name, ALL_NAMES)
    if o.raised:
        check("raises-only-ValueError", o.exc == "ValueError")
        check("raises-only-for-unknown-names", Not(known))
        check("no-backend-created-for-unknown-name", len(log) == 0)
        return
    check("returns-only-for-known-names", known)
    inits = [e for e in log if e[0] == "init"]
    check("exactly-one-backend-object", len(inits) == 1)
    if len(inits) != 1:
        return
    cls = inits[0][1]
    table = dict((v, k) for k, v in NAME_TABLE.items())
    table["Z3Backend"] = "z3"
    check("backend-class-is-the-configured-one", name == table.get(cls, "?"))
    check("every-call-goes-to-that-backend", all(e[1] == cls for e in log))
    check("constraints-are-handed-over-before-solving", [e[0] for e in log[:2]] == ["init", "add_constraint"])
    check("a-solve-entry-point-is-invoked", any(e[0] in ("solve", "solve_irrefutably") for e in log))


def _dispatch_history_native(case):
    """same history on the real classes, whose entry points are replaced by recorders for the duration"""
    db1, db2 = CTX.native_inputs["cfg_db_first"], CTX.native_inputs["cfg_db_second"]
    arg1 = CTX.native_inputs.get("arg_first") if case.first_arg == "str" else None
    classes = [_cls_of(n) for n in ALL_NAMES]
    log, saved = [], []

    def rec(kind, ret):
        def f(self, *a, **k):
            log.append((kind, type(self).__name__))
            return ret
        return f

    for c in classes:
        for nm, fn in (("__init__", rec("init", None)), ("add_constraint", rec("add_constraint", None)), ("solve", rec("solve", False)),
                       ("solve_irrefutably", rec("solve_irrefutably", False))):
            saved.append((c, nm, c.__dict__.get(nm, _MISSING_ATTR)))
            setattr(c, nm, fn)
    cfg = _fake_config(db1)
    try:
        with override_global(SOL, "config", cfg):
            solver = construct(CLS(SOL, "Solver"))
            o1 = call(REAL(SOL, "Solver." + case.first), solver, arg1)
            requires(not o1.raised)
            n1 = len(log)
            cfg.default_backend = db2
            o2 = call(REAL(SOL, "Solver." + case.second), solver, None)
    finally:
        for c, nm, old in reversed(saved):
            if old is _MISSING_ATTR:
                delattr(c, nm)
            else:
                setattr(c, nm, old)
    known = db2 in ALL_NAMES
    if o2.raised:
        check("raises-only-ValueError", o2.exc == "ValueError")
        check("raises-only-for-unknown-names", not known)
        return
    check("returns-only-for-known-names", known)
    inits = [e for e in log[n1:] if e[0] == "init"]
    check("second-call-creates-its-own-backend-object", len(inits) == 1)
    if len(inits) == 1:
        table = dict((v, k) for k, v in NAME_TABLE.items())
        table["Z3Backend"] = "z3"
        check("second-call-uses-the-backend-configured-at-that-time", db2 == table.get(inits[0][1], "?"))


_MISSING_ATTR = object()


def _hist_inputs(case):
    for a in ALL_NAMES:
        for b in ALL_NAMES + ["nosuch"]:
            if a != b:
                yield dict(cfg_db_first=a, cfg_db_second=b, arg_first="z3")


@harness("C20", cases=[dict(first=f1, second=f2, first_arg=a) for f1 in ("find_answer", "solve") for f2 in ("find_answer", "solve")
                       for a in ("none", "str")], native_inputs=_hist_inputs)
def dispatch_history(case):
    """the default is read at CALL time: after an earlier call on the same Solver (argument-less or with an
    explicit back end) and a reassignment of config.default_backend, an argument-less call goes to the back
    end that is configured NOW"""
    if CTX.mode == "interp":
        raise OutOfSubset("native-only instrumentation of the back-end classes")
    if CTX.mode == "native":
        return _dispatch_history_native(case)
    db1, db2 = sstr("cfg_db_first"), sstr("cfg_db_second")
    arg1 = sstr("arg_first") if case.first_arg == "str" else None
    log = []
    _backend_contracts(log)
    cfg = _fake_config(db1)
    with override_global(SOL, "config", cfg):
        solver = construct(CLS(SOL, "Solver"))
        o1 = call(REAL(SOL, "Solver." + case.first), solver, arg1)
        if o1.raised:
            requires(False)
        n1 = len(log)
        interp().setattr(cfg, "default_backend", db2)
        o2 = call(REAL(SOL, "Solver." + case.second), solver, None)
    known = one_of(db2, ALL_NAMES)
    if o2.raised:
        check("raises-only-ValueError", o2.exc == "ValueError")
        check("raises-only-for-unknown-names", Not(known))
        return
    check("returns-only-for-known-names", known)
    inits = [e for e in log[n1:] if e[0] == "init"]
    check("second-call-creates-its-own-backend-object", len(inits) == 1)
    if len(inits) != 1:
        return
    table = dict((v, k) for k, v in NAME_TABLE.items())
    table["Z3Backend"] = "z3"
    check("second-call-uses-the-backend-configured-at-that-time", db2 == table.get(inits[0][1], "?"))
    check("every-later-call-goes-to-that-backend", all(e[1] == inits[0][1] for e in log[n1:]))


# ---------------------------------------------------------------------------------------------
# graph encoders: the native operator is constructed only when configured, the auxiliary (rank
# variable) encoding only when not
GR = "cspuz/graph.py"
GRAPH_OPS = ("GRAPH_ACTIVE_VERTICES_CONNECTED", "GRAPH_DIVISION")


def _flag(tag, name):
    return None if tag == "none" else sbool(name)


def _abstract_graph(n, tag="g"):
    """a well-formed Graph object about which only the field types and ranges are known:
    m edges, endpoints in [0, n), incident lists of (vertex, edge id) pairs"""
    m = sint(tag + "_m")
    requires(m >= 0)

    def vertex():
        v = fresh_int("gv")
        requires(And(v >= 0, v < n))
        return v

    def edge_id():
        e = fresh_int("ge")
        requires(And(e >= 0, e < m))
        return e

    return OBJ(GR, "Graph", num_vertices=n, edges=AbstractSeq(lambda: (vertex(), vertex()), "edges", length=m),
               incident_edges=AbstractSeq(lambda: AbstractSeq(lambda: (vertex(), edge_id()), "incident"), "incident_edges", length=n))


def _graph_world(effective_of, marker_is_aux=True):
    """install contracts/watches; returns (solver, graph, log)"""
    log = []
    state = {"eff": None}

    def on_boolexpr(it, args, kwargs):
        op = args[1]
        if getattr(op, "name", None) in GRAPH_OPS:
            log.append(("graph-op", op.name))
            check("native-operator-only-when-configured", state["eff"])

    watch_call("cspuz/expr.py::BoolExpr.__init__", on_boolexpr)

    def ensure(it, args, kwargs):
        log.append(("ensure",))

    def int_array(it, args, kwargs):
        log.append(("int_array",))
        check("rank-variables-only-on-the-auxiliary-route", Not(state["eff"]))
        return Opaque("int_array")

    def bool_array(it, args, kwargs):
        log.append(("bool_array",))
        shape = args[1]
        if isinstance(shape, tuple):
            return Opaque("bool_array_2d")
        return OBJ("cspuz/array.py", "BoolArray1D", shape=(shape,), data=slist(CTX.fresh_name("ba"), "opaque", shape))

    use_contract(SOL + "::Solver.ensure", ensure)
    use_contract(SOL + "::Solver.int_array", int_array)
    use_contract(SOL + "::Solver.bool_array", bool_array)
    for f in ("count_true", "then", "cond", "fold_or", "fold_and"):
        use_contract("cspuz/constraints.py::" + f, lambda it, a, k: Opaque("expr"))
    use_contract("cspuz/array.py::_elementwise", lambda it, a, k: Opaque("array"))
    use_contract(GR + "::Graph.line_graph", lambda it, a, k: _abstract_graph(length(attr(a[0], "edges")), "lg"))
    use_contract(GR + "::Graph.add_edge", lambda it, a, k: None)
    solver = construct(CLS(SOL, "Solver"))
    n = sint("n")
    requires(n >= 0)
    graph = _abstract_graph(n)
    return solver, graph, log, state


FLAG_CASES = [dict(arg=a) for a in ("none", "given")]


def _cfg_flags():
    gp, gdp = sbool("cfg_gp"), sbool("cfg_gdp")
    cfg = OBJ(CFG, "Config", default_backend="z3", backend_path=None, use_graph_primitive=gp,
              use_graph_division_primitive=gdp, solver_timeout=None)
    return cfg, gp, gdp


def _eff(arg, cfgflag):
    return cfgflag if arg is None else arg


@harness("C20", cases=FLAG_CASES)
def enc_active_vertices_connected(case):
    if CTX.mode != "sym":
        return
    cfg, gp, gdp = _cfg_flags()
    arg = _flag(case.arg, "arg_ugp")
    acyclic = sbool("acyclic")
    solver, graph, log, st = _graph_world(None)
    st["eff"] = And(_eff(arg, gp), Not(acyclic))
    with override_global(GR, "config", cfg):
        o = call(REAL(GR, "_active_vertices_connected"), solver, slist("act", "opaque", attr(graph, "num_vertices")), graph, acyclic, arg)
    check("no-exception", not o.raised)
    if o.raised:
        return
    emitted = any(e[0] == "graph-op" for e in log)
    if emitted:
        check("native-route-declares-no-variables", not any(e[0] in ("int_array", "bool_array") for e in log))
    else:
        check("auxiliary-route-taken-only-when-not-configured", Not(st["eff"]))


@harness("C20", cases=FLAG_CASES)
def enc_division_connected(case):
    if CTX.mode != "sym":
        return
    cfg, gp, gdp = _cfg_flags()
    arg = _flag(case.arg, "arg_ugp")
    solver, graph, log, st = _graph_world(None)
    st["eff"] = _eff(arg, gp)
    division = OBJ("cspuz/array.py", "IntArray1D", shape=(attr(graph, "num_vertices"),),
                   data=slist("division", "opaque", attr(graph, "num_vertices")))
    nreg = sint("num_regions")
    requires(nreg >= 1)
    with override_global(GR, "config", cfg):
        o = call(REAL(GR, "_division_connected"), solver, division, nreg, graph, None, sbool("allow_empty"), arg)
    check("no-exception", not o.raised)
    emitted_aux = any(e[0] == "int_array" for e in log)
    if not emitted_aux:
        check("auxiliary-route-skipped-only-when-configured", st["eff"])


@harness("C20", cases=FLAG_CASES)
def enc_division_with_borders(case):
    if CTX.mode != "sym":
        return
    cfg, gp, gdp = _cfg_flags()
    arg = _flag(case.arg, "arg_ugp")
    solver, graph, log, st = _graph_world(None)
    st["eff"] = _eff(arg, gdp)

    def aux(it, a, k):
        log.append(("aux-encoding",))
        check("auxiliary-encoding-only-when-not-configured", Not(st["eff"]))
        return Opaque("group_id")

    use_contract(GR + "::_division_connected_variable_groups", aux)
    with override_global(GR, "config", cfg):
        o = call(REAL(GR, "_division_connected_variable_groups_with_borders"), solver, graph,
                 slist("gs", "opaque", attr(graph, "num_vertices")), slist("bd", "opaque", length(attr(graph, "edges"))), arg)
    check("no-exception", not o.raised)
    if o.raised:
        return
    if any(e[0] == "graph-op" for e in log):
        check("native-route-uses-graph-division", all(e[1] == "GRAPH_DIVISION" for e in log if e[0] == "graph-op"))
        check("native-route-has-no-auxiliary-encoding", not any(e[0] == "aux-encoding" for e in log))
    else:
        check("auxiliary-route-taken-only-when-not-configured", Not(st["eff"]))


@harness("C20", cases=[dict(arg=a, fn=f) for a in ("none", "given") for f in ("_active_edges_single_cycle", "_active_edges_single_path")])
def enc_single_cycle_path(case):
    if CTX.mode != "sym":
        return
    cfg, gp, gdp = _cfg_flags()
    arg = _flag(case.arg, "arg_ugp")
    solver, graph, log, st = _graph_world(None)
    st["eff"] = _eff(arg, gp)
    with override_global(GR, "config", cfg):
        o = call(REAL(GR, case.fn), solver, slist("act_e", "opaque", length(attr(graph, "edges"))), graph, arg)
    if o.raised:
        if case.fn.endswith("path"):
            check("path-exists-only-in-primitive-form", And(o.exc == "RuntimeError", Not(st["eff"])))
        else:
            check("no-exception", False)
        return
    if any(e[0] == "graph-op" for e in log):
        check("native-route-declares-no-rank-variables", not any(e[0] == "int_array" for e in log))
    else:
        check("auxiliary-route-taken-only-when-not-configured", Not(st["eff"]))


@harness("C20", cases=[dict(arg=a) for a in ("none", "given")])
def passthrough_grid(case):
    """grid form of active_vertices_connected (a BoolArray2D of any shape, graph omitted): acyclic and use_graph_primitive
    reach the worker unchanged, for 1xN and Nx1 boards like for any other"""
    if CTX.mode != "sym":
        return
    arg = _flag(case.arg, "arg_ugp")
    acyclic = sbool("acyclic")
    h, w = sint("h"), sint("w")
    requires(And(h >= 0, w >= 0))
    seen = []
    solver = construct(CLS(SOL, "Solver"))
    arr = OBJ("cspuz/array.py", "BoolArray2D", shape=(h, w), data=slist("act", "opaque", h * w))
    flat = OBJ("cspuz/array.py", "BoolArray1D", shape=(h * w,), data=slist("flat", "opaque", h * w))
    use_contract("cspuz/array.py::Array2D.flatten", lambda it, a, k: flat)
    use_contract("cspuz/array.py::BoolArray2D.flatten", lambda it, a, k: flat)
    use_contract(GR + "::_grid_graph", lambda it, a, k: Opaque("grid-graph"))

    def worker(it, a, k):
        vals = dict(zip(["solver", "is_active", "graph", "acyclic", "use_graph_primitive"], a))
        vals.update(k)
        seen.append(vals)
        return None
    use_contract(GR + "::_active_vertices_connected", worker)
    o = call(REAL(GR, "active_vertices_connected"), solver, arr, acyclic=acyclic, use_graph_primitive=arg)
    check("no-exception", not o.raised)
    check("worker-called-once", len(seen) == 1)
    if len(seen) == 1:
        v = seen[0]
        check("acyclic-unchanged", v.get("acyclic") == acyclic)
        check("flag-unchanged", (v.get("use_graph_primitive") is None) if arg is None else (v.get("use_graph_primitive") == arg))


@harness("C20", cases=[dict(fn=f, arg=a) for f in ("active_edges_single_cycle", "active_edges_single_path") for a in ("none", "given")])
def passthrough_frame(case):
    """frame form of the cycle / path constraints (a BoolGridFrame of any size, graph omitted): the flag reaches the worker
    unchanged, together with the edges and the graph read off the frame"""
    if CTX.mode != "sym":
        return
    arg = _flag(case.arg, "arg_ugp")
    h, w = sint("h"), sint("w")
    requires(And(h >= 0, w >= 0))
    seen = []
    solver = construct(CLS(SOL, "Solver"))
    frame = OBJ("cspuz/grid_frame.py", "BoolGridFrame", solver=solver, height=h, width=w, horizontal=Opaque("hz"), vertical=Opaque("vt"))
    edges, g = Opaque("edges-of-the-frame"), Opaque("graph-of-the-frame")
    use_contract(GR + "::_from_grid_frame", lambda it, a, k: (edges, g))

    class Passed(GhostVal):
        def pv_getattr(self, name):
            if name != "reshape":
                raise OutOfSubset("passed.%s" % name)
            return HostFn(lambda it, a, k: Opaque("reshaped"), "reshape", raw=True)

    def worker(it, a, k):
        vals = dict(zip(["solver", "is_active_edge", "graph", "use_graph_primitive"], a))
        vals.update(k)
        seen.append(vals)
        return Passed()
    use_contract(GR + "::_" + case.fn, worker)
    o = call(REAL(GR, case.fn), solver, frame, use_graph_primitive=arg)
    check("no-exception", not o.raised)
    check("worker-called-once", len(seen) == 1)
    if len(seen) == 1:
        v = seen[0]
        check("the-frame's-edges-and-graph", v.get("is_active_edge") is edges and v.get("graph") is g)
        check("flag-unchanged", (v.get("use_graph_primitive") is None) if arg is None else (v.get("use_graph_primitive") == arg))


@harness("C20", cases=[dict(arg=a) for a in ("none", "given")])
def passthrough_borders_grid(case):
    """grid form of division_connected_variable_groups_with_borders (IntArray2D sizes, BoolInnerGridFrame borders): the flag
    reaches the worker unchanged, with the graph and edges read off the dual of the border frame and the flattened sizes"""
    if CTX.mode != "sym":
        return
    arg = _flag(case.arg, "arg_ugp")
    h, w = sint("h"), sint("w")
    requires(And(h >= 0, w >= 0))
    seen = []
    solver = construct(CLS(SOL, "Solver"))
    sizes = OBJ("cspuz/array.py", "IntArray2D", shape=(h, w), data=slist("sz", "opaque", h * w))
    flat = Opaque("flattened-sizes")
    use_contract("cspuz/array.py::Array2D.flatten", lambda it, a, k: flat)
    use_contract("cspuz/array.py::IntArray2D.flatten", lambda it, a, k: flat)
    borders = OBJ("cspuz/grid_frame.py", "BoolInnerGridFrame", solver=solver, height=h, width=w, horizontal=Opaque("hz"), vertical=Opaque("vt"))
    dual = Opaque("dual-of-the-border-frame")
    use_contract("cspuz/grid_frame.py::BoolInnerGridFrame.dual", lambda it, a, k: dual)
    edges, g = Opaque("edges-of-the-frame"), Opaque("graph-of-the-frame")
    asked = []

    def fgf(it, a, k):
        asked.append(a)
        return (edges, g)
    use_contract(GR + "::_from_grid_frame", fgf)

    def worker(it, a, k):
        vals = dict(zip(["solver", "graph", "group_size", "is_border", "use_graph_primitive"], a))
        vals.update(k)
        seen.append(vals)
        return None
    use_contract(GR + "::_division_connected_variable_groups_with_borders", worker)
    o = call(REAL(GR, "division_connected_variable_groups_with_borders"), solver, group_size=sizes, is_border=borders, use_graph_primitive=arg)
    check("no-exception", not o.raised)
    check("worker-called-once", len(seen) == 1)
    check("the-graph-is-read-off-the-dual-frame", len(asked) == 1 and len(asked[0]) == 1 and asked[0][0] is dual)
    if len(seen) == 1:
        v = seen[0]
        check("graph,-flattened-sizes-and-edges-of-the-frame", v.get("graph") is g and v.get("group_size") is flat and v.get("is_border") is edges)
        check("flag-unchanged", (v.get("use_graph_primitive") is None) if arg is None else (v.get("use_graph_primitive") == arg))


@harness("C20", cases=[dict(fn=f, arg=a) for f in ("active_vertices_connected", "active_edges_single_cycle",
                                                   "active_edges_single_path", "division_connected_variable_groups_with_borders",
                                                   "not_segmenting") for a in ("none", "given") if not (f == "not_segmenting" and a == "given")])
def passthrough(case):
    """the public wrappers hand the caller's use_graph_primitive (and acyclic) to the worker unchanged"""
    if CTX.mode != "sym":
        return
    arg = _flag(case.arg, "arg_ugp")
    seen = []
    graph = _abstract_graph(sint("n"))
    solver = construct(CLS(SOL, "Solver"))

    def capture(tag, names):
        def c(it, a, k):
            # positional parameters mapped by the worker's own signature order
            vals = dict(zip(names, a))
            vals.update(k)
            seen.append((tag, vals))
            return Opaque(tag)
        return c

    if case.fn == "active_vertices_connected":
        acyclic = sbool("acyclic")
        use_contract(GR + "::_active_vertices_connected", capture("w", ["solver", "is_active", "graph", "acyclic", "use_graph_primitive"]))
        o = call(REAL(GR, "active_vertices_connected"), solver, mklist([]), graph, acyclic=acyclic, use_graph_primitive=arg)
        check("no-exception", not o.raised)
        check("worker-called-once", len(seen) == 1)
        if seen:
            v = seen[0][1]
            check("acyclic-unchanged", v.get("acyclic") == acyclic)
            check("flag-unchanged", (v.get("use_graph_primitive") is None) if arg is None else (v.get("use_graph_primitive") == arg))
    elif case.fn in ("active_edges_single_cycle", "active_edges_single_path"):
        use_contract(GR + "::_" + case.fn, capture("w", ["solver", "is_active_edge", "graph", "use_graph_primitive"]))
        o = call(REAL(GR, case.fn), solver, mklist([]), graph, use_graph_primitive=arg)
        check("no-exception", not o.raised)
        check("worker-called-once", len(seen) == 1)
        if seen:
            v = seen[0][1]
            check("flag-unchanged", (v.get("use_graph_primitive") is None) if arg is None else (v.get("use_graph_primitive") == arg))
    elif case.fn == "division_connected_variable_groups_with_borders":
        use_contract(GR + "::_division_connected_variable_groups_with_borders",
                     capture("w", ["solver", "graph", "group_size", "is_border", "use_graph_primitive"]))
        o = call(REAL(GR, case.fn), solver, group_size=mklist([]), is_border=mklist([]), graph=graph, use_graph_primitive=arg)
        check("no-exception", not o.raised)
        check("worker-called-once", len(seen) == 1)
        if seen:
            v = seen[0][1]
            check("flag-unchanged", (v.get("use_graph_primitive") is None) if arg is None else (v.get("use_graph_primitive") == arg))
    else:
        # graph form of not_adjacent_and_not_segmenting: no per-call override exists, so the
        # configuration must decide (flag None reaches the worker)
        use_contract(GR + "::active_vertices_not_adjacent", lambda it, a, k: None)
        use_contract(GR + "::active_vertices_connected", capture("w", ["solver", "is_active", "graph"]))
        arr = OBJ("cspuz/array.py", "BoolArray1D", shape=(sint("n"),), data=slist("act", "opaque", sint("n")))
        use_contract("cspuz/array.py::_elementwise", lambda it, a, k: Opaque("array"))
        o = call(REAL(GR, "active_vertices_not_adjacent_and_not_segmenting"), solver, arr, graph)
        check("no-exception", not o.raised)
        check("worker-called-once", len(seen) == 1)
        if seen:
            v = seen[0][1]
            check("configuration-decides", v.get("use_graph_primitive") is None and "acyclic" not in v)
