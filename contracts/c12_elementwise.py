"""C12 — contracts on cspuz/array.py::_elementwise (E1), the operator methods (E2) and
_four_neighbor_indices (E4).  Shapes and array sizes are symbolic (no bound)."""
from pyvc.api import *

A = "cspuz/array.py"
EX = "cspuz/expr.py"
EW = A + "::_elementwise"

INT2 = ["EQ", "NE", "LE", "LT", "GE", "GT", "ADD", "SUB"]
BOOL2 = ["AND", "OR", "IFF", "XOR", "IMP"]
BOOL_RESULT = ["EQ", "NE", "LE", "LT", "GE", "GT", "NOT", "AND", "OR", "IFF", "XOR", "IMP", "ALLDIFF"]
KINDS = ["barr", "iarr", "bexpr", "iexpr", "blit", "ilit"]
VALUE_KIND = {"barr": "bool", "iarr": "int", "bexpr": "bool", "iexpr": "int", "blit": "bool", "ilit": "int"}


def _cases():
    out = []
    for dim in (1, 2):
        for op in INT2 + BOOL2:
            for a in KINDS:
                for b in KINDS:
                    out.append(dict(op=op, dim=dim, kinds=a + "," + b))
        for op in ("NOT", "NEG"):
            for a in KINDS:
                out.append(dict(op=op, dim=dim, kinds=a))
            out.append(dict(op=op, dim=dim, kinds="barr,barr"))
        for a in ("barr", "bexpr", "blit", "iarr"):
            for b in ("iarr", "iexpr", "ilit", "blit", "barr"):
                for c in ("iarr", "ilit", "bexpr"):
                    out.append(dict(op="IF", dim=dim, kinds="%s,%s,%s" % (a, b, c)))
        for ks in ("", "iarr", "iarr,ilit", "iarr,iexpr,iarr", "iarr,barr", "blit,iarr"):
            out.append(dict(op="ALLDIFF", dim=dim, kinds=ks))
    return out


def _expected_kind_ok(op, kinds):
    vk = [VALUE_KIND[k] for k in kinds]
    if op in INT2:
        return len(vk) == 2 and all(v == "int" for v in vk)
    if op in BOOL2:
        return len(vk) == 2 and all(v == "bool" for v in vk)
    if op == "NOT":
        return vk == ["bool"]
    if op == "NEG":
        return vk == ["int"]
    if op == "IF":
        return vk == ["bool", "int", "int"]
    if op == "ALLDIFF":
        return all(v == "int" for v in vk)
    raise ValueError(op)


def _mk_operand(kind, j, dim, shape, size):
    """returns (value, array?)"""
    if kind in ("barr", "iarr"):
        cls = ("Bool" if kind == "barr" else "Int") + "Array%dD" % dim
        return OBJ(A, cls, shape=shape, data=slist("data%d" % j, "ref", size)), True
    if kind == "bexpr":
        return OBJ(EX, "BoolExpr", op=None, operands=mklist([])), False
    if kind == "iexpr":
        return OBJ(EX, "IntExpr", op=None, operands=mklist([])), False
    # Python literals: ARBITRARY values (a change that special-cases 0, 1, True ... must show up)
    if kind == "blit":
        return (sbool("bool_literal%d" % j) if CTX.mode == "sym" else True), False
    return (sint("int_literal%d" % j) if CTX.mode == "sym" else 2), False


@harness("C12", cases=_cases())
def elementwise(case):
    """_elementwise(op, shape, operands): kind check (NotImplemented for ill-kinded operands), then an array of
    the given shape whose element i is <op>(operand_j[i] or the scalar operand_j, in order), Bool or Int array
    according to the operator"""
    if CTX.mode != "sym":
        return
    Op = CLS(EX, "Op")
    op = attr(Op, case.op)
    kinds = [k for k in case.kinds.split(",") if k]
    if case.dim == 1:
        n = sint("n")
        requires(n >= 0)
        shape, size = (n,), n
    else:
        h, w = sint("h"), sint("w")
        requires(And(h >= 0, w >= 0))
        shape, size = (h, w), h * w
    # array elements are expressions of unknown structure: code that asks for their class is outside this contract
    # (the answer is not "no class at all"); the bounded tier runs arrays with variable and with compound elements
    def _element_class(v, cls):
        raise OutOfSubset("the code inspects the class of an array element (%s)" % getattr(cls, "name", cls))
    ghost("sref_isinstance", _element_class)
    ghost("sref_pytype", lambda v, t: (_ for _ in ()).throw(OutOfSubset("the code inspects the Python type of an array element")))
    operands = [_mk_operand(k, j, case.dim, shape, size) for j, k in enumerate(kinds)]
    vals = [v for v, _ in operands]

    def on_append(ns, value):
        i = ns.i
        want_cls = "BoolExpr" if case.op in BOOL_RESULT else "IntExpr"
        check("element-class", And(isinst(value, EX, want_cls), not isinst(value, EX, "IntExpr" if want_cls == "BoolExpr" else "BoolExpr")))
        check("element-operator", attr(value, "op") is op)
        ops_ = attr(value, "operands")
        check("element-arity", length(ops_) == len(vals))
        if isinstance(length(ops_), int) and length(ops_) == len(vals):
            for j, (v, is_arr) in enumerate(operands):
                if is_arr:
                    check("element-operand-%d-is-array-element-i" % j, same(item(ops_, j), raw_item(attr(v, "data"), i)))
                else:
                    got = item(ops_, j)
                    if isinstance(v, (int, bool, SInt, SBool)):
                        # a literal: the same VALUE of the same kind (identity of ints is not a Python-level notion)
                        check("element-operand-%d-is-the-scalar" % j,
                              And(isinstance(got, (bool, SBool)) == isinstance(v, (bool, SBool)), got == v) if isinstance(got, (int, bool, SInt, SBool)) else False)
                    else:
                        check("element-operand-%d-is-the-scalar" % j, same(got, v))

    watch("append", EW, "res", on_append)
    loop_spec(EW, 1, inv=lambda ns: [length(ns.res) == ns.i], modifies=["res"], types={"res": "list:ref"})
    o = call(REAL(A, "_elementwise"), op, shape, mklist(vals))
    ok = _expected_kind_ok(case.op, kinds)
    check("no-exception-for-equal-shapes", not o.raised)
    if o.raised:
        return
    if not ok:
        check("ill-kinded-operands-give-NotImplemented", o.value is NotImplemented)
        return
    check("well-kinded-operands-accepted", o.value is not NotImplemented)
    if o.value is NotImplemented:
        return
    r = o.value
    want = ("Bool" if case.op in BOOL_RESULT else "Int") + "Array%dD" % case.dim
    check("result-class", isinst(r, A, want))
    sh = attr(r, "shape")
    check("result-shape", And(len(sh) == case.dim, *[sh[d] == shape[d] for d in range(case.dim)]))
    check("result-length", length(attr(r, "data")) == size)


@harness("C12", cases=[dict(dim=d) for d in (1, 2)])
def elementwise_shape_mismatch(case):
    """an array operand of another shape is rejected with ValueError"""
    if CTX.mode != "sym":
        return
    Op = CLS(EX, "Op")
    if case.dim == 1:
        n, m = sint("n"), sint("m")
        requires(And(n >= 0, m >= 0, n != m))
        s1, s2, z1, z2 = (n,), (m,), n, m
    else:
        h, w, h2, w2 = sint("h"), sint("w"), sint("h2"), sint("w2")
        requires(And(h >= 0, w >= 0, h2 >= 0, w2 >= 0, Or(h != h2, w != w2)))
        s1, s2, z1, z2 = (h, w), (h2, w2), h * w, h2 * w2
    a = OBJ(A, "IntArray%dD" % case.dim, shape=s1, data=slist("a", "ref", z1))
    b = OBJ(A, "IntArray%dD" % case.dim, shape=s2, data=slist("b", "ref", z2))
    ghost("sref_classes", set())
    o = call(REAL(A, "_elementwise"), attr(Op, "ADD"), s1, mklist([a, b]))
    check("shape-mismatch-raises-ValueError", o.exc == "ValueError")
    o2 = call(REAL(A, "_elementwise"), attr(Op, "ADD"), s1, mklist([b, a]))
    check("shape-mismatch-raises-ValueError-first-operand", o2.exc == "ValueError")


# ---- E2: every operator method hands the right operator and operand order to _elementwise
METHODS = {
    "Bool": [("__invert__", "NOT", "unary"), ("__and__", "AND", "fwd"), ("__rand__", "AND", "rev"), ("__or__", "OR", "fwd"),
             ("__ror__", "OR", "rev"), ("__eq__", "IFF", "fwd"), ("__ne__", "XOR", "fwd"), ("__xor__", "XOR", "fwd"),
             ("__rxor__", "XOR", "rev"), ("then", "IMP", "fwd"), ("cond", "IF", "cond")],
    "Int": [("__neg__", "NEG", "unary"), ("__add__", "ADD", "fwd"), ("__radd__", "ADD", "rev"), ("__sub__", "SUB", "fwd"),
            ("__rsub__", "SUB", "rev"), ("__eq__", "EQ", "fwd"), ("__ne__", "NE", "fwd"), ("__ge__", "GE", "fwd"),
            ("__gt__", "GT", "fwd"), ("__le__", "LE", "fwd"), ("__lt__", "LT", "fwd")],
}


@harness("C12", cases=[dict(cls="%sArray%dD" % (k, d), method=m, op=o, form=f, ni=ni)
                       for k in ("Bool", "Int") for d in (1, 2) for (m, o, f) in METHODS[k] for ni in (False, True)
                       if not (ni and m not in ("then", "cond"))])
def operator_methods(case):
    """A.<method>(B) == _elementwise(<operator>, A.shape, [A, B]) (reflected forms: [B, A]); then/cond raise
    TypeError when _elementwise reports NotImplemented"""
    if CTX.mode != "sym":
        return
    Op = CLS(EX, "Op")
    shape = (sint("n"),) if case.cls.endswith("1D") else (sint("h"), sint("w"))
    arr = OBJ(A, case.cls, shape=shape, data=Opaque("data"))
    other, third = Opaque("other"), Opaque("third")
    seen = []
    result = Opaque("result")

    def ew(it, args, kwargs):
        seen.append(args)
        return NotImplemented if case.ni else result

    use_contract(EW, ew)
    f = REAL(A, case.cls + "." + case.method)
    if case.form == "unary":
        o = call(f, arr)
        want = [arr]
    elif case.form == "cond":
        o = call(f, arr, other, third)
        want = [arr, other, third]
    else:
        o = call(f, arr, other)
        want = [arr, other] if case.form == "fwd" else [other, arr]
    check("elementwise-called-once", len(seen) == 1)
    if len(seen) != 1:
        return
    op, shp, ops_ = seen[0]
    check("operator", op is attr(Op, case.op))
    check("shape-of-receiver", shp is shape)
    items = [item(ops_, j) for j in range(length(ops_))] if isinstance(length(ops_), int) else []
    check("operands-in-order", len(items) == len(want) and all(a is b for a, b in zip(items, want)))
    if case.ni:
        check("NotImplemented-becomes-TypeError", o.exc == "TypeError")
    else:
        check("result-passed-through", And(not o.raised, o.value is result))


# ---- E4: neighbour indices
def _nb_inputs(case):
    for h in range(0, 4):
        for w in range(0, 4):
            for y in range(0, max(h, 1)):
                for x in range(0, max(w, 1)):
                    yield dict(h=h, w=w, y=y, x=x)


@harness("C12", cases=[dict(form="two"), dict(form="tuple")], native_inputs=_nb_inputs)
def four_neighbor_indices(case):
    """_four_neighbor_indices(shape, y, x) = the in-bounds members of {(y-1,x),(y+1,x),(y,x-1),(y,x+1)}, each once"""
    h, w, y, x = sint("h"), sint("w"), sint("y"), sint("x")
    requires(And(h >= 0, w >= 0, y >= 0, y < h, x >= 0, x < w))
    f = REAL(A, "_four_neighbor_indices")
    o = call(f, (h, w), y, x) if case.form == "two" else call(f, (h, w), (y, x), None)
    check("no-exception", not o.raised)
    if o.raised:
        return
    res = o.value
    n = length(res)
    got = [item(res, j) for j in range(n)]
    cands = [(y - 1, x), (y + 1, x), (y, x - 1), (y, x + 1)]
    for (cy, cx) in cands:
        inb = And(cy >= 0, cy < h, cx >= 0, cx < w)
        present = Or(*[And(g[0] == cy, g[1] == cx) for g in got]) if got else False
        check("in-bounds-neighbour-listed-iff-in-bounds", present == inb if not isinstance(present, bool) or not isinstance(inb, bool) else present == inb)
    for g in got:
        check("only-orthogonal-neighbours", Or(*[And(g[0] == cy, g[1] == cx) for (cy, cx) in cands]))
    for a_ in range(n):
        for b_ in range(a_):
            check("no-duplicates", Not(And(got[a_][0] == got[b_][0], got[a_][1] == got[b_][1])))
