"""C03 — contracts on the text back ends (cspuz/backend/sugar_like.py).

Proved here, for every expression / every number of variables and constraints (no bound):
  * `_convert_expr` (structural induction, recursive calls replaced by their contract "child c prints as
    T(c)"): a node with operator `op` and children c1..cn prints as "(" NAME(op) " " T(c1) " " .. T(cn) ")"
    where NAME is the reference Sugar spelling (table below, written from the Sugar syntax accepted by
    specs/sugar_ref.py, not copied from the repository) — every operator, arities 0..4 of the n-ary ones;
    leaves: None -> "*", Python bool -> true/false (tested before int), int -> its decimal numeral,
    BoolVar -> "b"+id, IntVar -> "i"+id, constant nodes -> their literal; anything else TypeError;
  * `_convert_variable`: "(bool b<id>)" / "(int i<id> <lo> <hi>)", anything else TypeError;
  * `SugarLikeBackend.__init__`: declarations are the pointwise image of the variable list (same order, same
    length); max_var_id is an upper bound of every id (so the reply table has an entry for each); a foreign
    object among the variables is rejected with TypeError;
  * `add_constraint`: a list appends the pointwise image in order, a single expression appends one line;
    earlier lines are never touched;
  * `solve` / `solve_irrefutably`: the description handed to the external solver is the join by "\\n" of exactly
    declarations ++ constraints (++ the key line in deduction mode), the key line is "#" + names of exactly
    the variables whose is_answer_key entry is true, in order (append-site obligations + completeness);
    reply handling: `UNSATISFIABLE` / `unsat` in the first line => False and every sol becomes None;
    otherwise True and sol of variable v is the entry number v.id of the assignment table, which has
    max_var_id+1 entries (so the lookup is in range for every declared variable); the per-line parser is
    proved on structured lines `a <name>\\t<value>` / `<name> <value>`: the entry written is the one named,
    with True/False/int typing of the value.
Assumed: str.format/str()/join/split/strip of CPython (pyvc host models); the decimal numeral function
str(int) and its inverse int(str) are uninterpreted with the ground fact int(str(n)) == n.
"""
import z3 as _z3

from pyvc.api import *
from pyvc.values import VList, HostFn, NONE_SENTINEL as NONE
from pyvc.sym import _zint, zstr
from pyvc.hostmodels import UF

SL = "cspuz/backend/sugar_like.py"
EX = "cspuz/expr.py"
CE = SL + "::_convert_expr"
CV = SL + "::_convert_variable"

# reference spelling of the operators in the Sugar CSP language (http://bach.istc.kobe-u.ac.jp/sugar/ syntax;
# the same names the reference evaluator specs/sugar_ref.py accepts)
REF_NAME = {
    "NEG": "-", "ADD": "+", "SUB": "-", "EQ": "=", "NE": "!=", "LE": "<=", "LT": "<", "GE": ">=", "GT": ">",
    "NOT": "!", "AND": "&&", "OR": "||", "IFF": "iff", "XOR": "xor", "IMP": "=>", "IF": "if",
    "ALLDIFF": "alldifferent", "GRAPH_ACTIVE_VERTICES_CONNECTED": "graph-active-vertices-connected",
    "GRAPH_DIVISION": "graph-division",
}
FIXED = {"NEG": 1, "EQ": 2, "NE": 2, "LE": 2, "LT": 2, "GE": 2, "GT": 2, "NOT": 1, "IFF": 2, "XOR": 2, "IMP": 2, "IF": 3}
NARY = ["ADD", "SUB", "AND", "OR", "ALLDIFF", "GRAPH_ACTIVE_VERTICES_CONNECTED", "GRAPH_DIVISION"]
BOOL_RESULT = {"EQ", "NE", "LE", "LT", "GE", "GT", "NOT", "AND", "OR", "IFF", "XOR", "IMP", "ALLDIFF",
               "GRAPH_ACTIVE_VERTICES_CONNECTED", "GRAPH_DIVISION"}


def _dec(n):
    """the decimal numeral of an integer (uninterpreted in sym mode: CPython's str(int))"""
    if isinstance(n, int):
        return str(n)
    return SStr(UF["str_int"](n.t))


def _cases():
    out = [dict(op=o, arity=a) for o, a in FIXED.items()]
    for o in NARY:
        out += [dict(op=o, arity=a) for a in (0, 1, 2, 3, 4)]
    return out


def _node(opname, children):
    Op = CLS(EX, "Op")
    return OBJ(EX, "BoolExpr" if opname in BOOL_RESULT else "IntExpr", op=attr(Op, opname), operands=mklist(children))


@harness("C03", cases=_cases())
def convert_operator(case):
    """text(node) == "(" NAME " " text(c1) " " ... text(cn) ")" with the reference operator name"""
    if CTX.mode != "sym":
        return
    children, texts = [], []
    for j in range(case.arity):
        # a child is an expression of unknown shape (only the recursive call may look at it)
        children.append(OBJ(EX, "BoolExpr", op=Opaque("operator of a child node"), operands=Opaque("operands of a child node")))
        texts.append(sstr("t%d" % j))
    e = _node(case.op, children)

    def rec(it, args, kwargs):
        (x,) = args
        for c, t in zip(children, texts):
            if x is c:
                return t
        check("recursive-call-on-an-operand", False)
        raise PathEnd("unknown child")

    use_contract(CE, rec)
    o = call(REAL(SL, "_convert_expr"), e)
    check("no-exception", not o.raised)
    if o.raised:
        return
    want = "(" + REF_NAME[case.op] + " "
    for j, t in enumerate(texts):
        if j:
            want = want + " "
        want = want + t
    want = want + ")"
    if case.arity == 0:
        check("text-is-operator-name-then-operands-in-order", Or(o.value == want, o.value == "(" + REF_NAME[case.op] + ")"))
    else:
        check("text-is-operator-name-then-operands-in-order", o.value == want)


@harness("C03", cases=[dict(kind=k) for k in ("none", "bool-literal", "int-literal", "bool-constant", "int-constant",
                                              "bool-var", "int-var", "foreign")])
def convert_leaf(case):
    if CTX.mode != "sym":
        return
    Op = CLS(EX, "Op")
    f = REAL(SL, "_convert_expr")
    if case.kind == "none":
        o = call(f, None)
        check("wildcard", And(not o.raised, o.value == "*"))
    elif case.kind == "bool-literal":
        b = sbool("b")
        o = call(f, b)
        check("no-exception", not o.raised)
        if not o.raised:
            check("true-false-not-1-0", o.value == ("true" if b else "false"))
    elif case.kind == "int-literal":
        i = sint("i")
        o = call(f, i)
        check("no-exception", not o.raised)
        if not o.raised:
            check("decimal-numeral", o.value == _dec(i))
    elif case.kind == "bool-constant":
        for v in (True, False):
            o = call(f, OBJ(EX, "BoolExpr", op=attr(Op, "BOOL_CONSTANT"), operands=mklist([v])))
            check("constant-%s" % v, And(not o.raised, o.value == ("true" if v else "false")))
    elif case.kind == "int-constant":
        i = sint("i")
        o = call(f, OBJ(EX, "IntExpr", op=attr(Op, "INT_CONSTANT"), operands=mklist([i])))
        check("no-exception", not o.raised)
        if not o.raised:
            check("decimal-numeral", o.value == _dec(i))
    elif case.kind in ("bool-var", "int-var"):
        i = sint("id")
        cls = "BoolVar" if case.kind == "bool-var" else "IntVar"
        v = OBJ(EX, cls, op=attr(Op, "VAR"), operands=mklist([]), id=i, lo=sint("lo"), hi=sint("hi"))
        o = call(f, v)
        check("no-exception", not o.raised)
        if not o.raised:
            check("name-is-kind-letter-plus-id", o.value == ("b" if cls == "BoolVar" else "i") + _dec(i))
    else:
        o = call(f, "text")
        check("foreign-value-rejected", o.exc == "TypeError")
        o = call(f, mklist([]))
        check("foreign-list-rejected", o.exc == "TypeError")


@harness("C03", cases=[dict(kind=k) for k in ("bool", "int", "foreign")])
def convert_variable(case):
    if CTX.mode != "sym":
        return
    Op = CLS(EX, "Op")
    f = REAL(SL, "_convert_variable")
    i, lo, hi = sint("id"), sint("lo"), sint("hi")
    if case.kind == "bool":
        o = call(f, OBJ(EX, "BoolVar", op=attr(Op, "VAR"), operands=mklist([]), id=i))
        check("no-exception", not o.raised)
        if not o.raised:
            check("bool-declaration", o.value == "(bool b" + _dec(i) + ")")
    elif case.kind == "int":
        o = call(f, OBJ(EX, "IntVar", op=attr(Op, "VAR"), operands=mklist([]), id=i, lo=lo, hi=hi))
        check("no-exception", not o.raised)
        if not o.raised:
            check("int-declaration-with-domain", o.value == "(int i" + _dec(i) + " " + _dec(lo) + " " + _dec(hi) + ")")
    else:
        o = call(f, OBJ(EX, "BoolExpr", op=attr(Op, "NOT"), operands=mklist([])))
        check("expression-rejected", o.exc == "TypeError")
        o = call(f, 3)
        check("int-rejected", o.exc == "TypeError")


# ------------------------------------------------------------------------------------------------
# the back-end object: variables are opaque references; ghost functions give their class, id and text
class _World:
    """ghost view of a variable list of symbolic length: variables[k] is object number k; KIND(k) in
    {0: BoolVar, 1: IntVar, 2: foreign}, ID(k) its id, DECL(k)/TEXT(x) the contract results of
    _convert_variable / _convert_expr; sol is a ghost map object -> value"""

    def __init__(self, allow_foreign=False):
        self.n = sint("n_var")
        requires(self.n >= 0)
        k_ = _z3.Int("k!w")
        self.variables = VList(None, self.n.t, _z3.Lambda([k_], k_), "ref")
        self.KIND = _z3.Function("KIND", _z3.IntSort(), _z3.IntSort())
        self.ID = _z3.Function("ID", _z3.IntSort(), _z3.IntSort())
        self.DECL = _z3.Function("DECL", _z3.IntSort(), _z3.StringSort())
        self.TEXT = _z3.Function("TEXT", _z3.IntSort(), _z3.StringSort())
        self.sol = _z3.Array("sol0", _z3.IntSort(), _z3.IntSort())
        self.sol_writes = 0
        self.allow_foreign = allow_foreign
        q = _z3.Int("q!w")
        if not allow_foreign:
            CTX.assume(_z3.ForAll([q], _z3.Implies(_z3.And(q >= 0, q < self.n.t), _z3.Or(self.KIND(q) == 0, self.KIND(q) == 1))))
        from pyvc.values import _elem_wrap, _elem_unwrap
        w = self

        def getattr_(ref, name):
            if name == "id":
                return SInt(w.ID(ref.t))
            if name == "sol":
                return _elem_wrap("optint", _z3.Select(w.sol, ref.t))
            raise OutOfSubset("attribute " + name)

        def setattr_(ref, name, val):
            if name != "sol":
                raise OutOfSubset("attribute " + name)
            if isinstance(val, (bool, SBool)):
                val = val + 0 if isinstance(val, SBool) else int(val)
            w.sol = _z3.Store(w.sol, ref.t, _elem_unwrap("optint", val))
            w.sol_writes += 1

        ghost("sref_getattr", getattr_)
        ghost("sref_setattr", setattr_)
        ghost("sref_isinstance", self.isinstance_)
        use_contract(CV, lambda it, a, k: SStr(w.DECL(a[0].t)))
        use_contract(CE, lambda it, a, k: SStr(w.TEXT(a[0].t)) if isinstance(a[0], SRef) else (_ for _ in ()).throw(OutOfSubset("convert of non-ref")))

    def isinstance_(self, ref, cls):
        """isinstance(ref, cls) decided by the ghost KIND (0 BoolVar, 1 IntVar; both are Expr)"""
        nm = cls.name
        if nm == "BoolVar":
            return SBool(self.KIND(ref.t) == 0)
        if nm == "IntVar":
            return SBool(self.KIND(ref.t) == 1)
        if nm in ("Expr", "BoolExpr"):
            return SBool(_z3.Or(self.KIND(ref.t) == 0, nm == "Expr" and self.KIND(ref.t) == 1))
        if nm == "IntExpr":
            return SBool(self.KIND(ref.t) == 1)
        return False


def _inv_init(w):
    def inv(ns):
        mx = _zint(ns.max_var_id)
        upper = forall_range(ns.idx, lambda j: mk_bool(w.ID(j.t) <= mx), hint="q")
        allvars = forall_range(ns.idx, lambda j: mk_bool(_z3.Or(w.KIND(j.t) == 0, w.KIND(j.t) == 1)), hint="q")
        return [upper, allvars]
    return inv


@harness("C03", cases=[dict(foreign=f) for f in (False, True)])
def backend_init(case):
    """declarations = pointwise image of the variables; max_var_id bounds every id; foreign objects rejected"""
    if CTX.mode != "sym":
        return
    w = _World(allow_foreign=case.foreign)
    loop_spec(SL + "::SugarLikeBackend.__init__", 0, inv=_inv_init(w), modifies=["max_var_id"], types={"max_var_id": "int", "v": "opaque"})
    o = call(construct, CLS(SL, "SugarLikeBackend"), w.variables)
    if case.foreign:
        q = fresh_int("q")
        if o.raised:
            check("raises-only-TypeError", o.exc == "TypeError")
        else:
            requires(And(q >= 0, q < w.n))
            check("accepted-only-when-every-variable-is-a-variable", mk_bool(_z3.Or(w.KIND(q.t) == 0, w.KIND(q.t) == 1)))
        return
    check("no-exception", not o.raised)
    if o.raised:
        return
    be = o.value
    decls = attr(be, "converted_variables")
    check("one-declaration-per-variable", length(decls) == w.n)
    check("declaration-k-is-that-of-variable-k", forall_range(w.n, lambda k: mk_bool(_z3.Select(decls.arr, k.t) == w.DECL(k.t))))
    mx = attr(be, "max_var_id")
    check("max-var-id-bounds-every-id", forall_range(w.n, lambda k: mk_bool(w.ID(k.t) <= _zint(mx))))
    check("no-constraints-yet", length(attr(be, "converted_constraints")) == 0)


def _backend(w, ncons_name="n_cons"):
    """a back-end object in an arbitrary reachable state (representation invariant stated here)"""
    nc = sint(ncons_name)
    requires(nc >= 0)
    decls = VList(None, w.n.t, _z3.Lambda([_z3.Int("k!d")], w.DECL(_z3.Int("k!d"))), "str")
    cons = VList.symbolic("cons0", "str", nc)
    mx = sint("max_var_id")
    q = _z3.Int("q!b")
    CTX.assume(_z3.ForAll([q], _z3.Implies(_z3.And(q >= 0, q < w.n.t), _z3.And(w.ID(q) <= mx.t, w.ID(q) >= 0))))
    requires(mx >= -1)
    be = OBJ(SL, "SugarLikeBackend", variables=w.variables, max_var_id=mx, converted_variables=decls, converted_constraints=cons)
    return be, decls, cons, nc, mx


@harness("C03", cases=[dict(form=f) for f in ("list", "single")])
def add_constraint(case):
    """a list appends the pointwise image in order, a single expression one line; earlier lines stay"""
    if CTX.mode != "sym":
        return
    w = _World()
    be, decls, cons, nc, mx = _backend(w)
    before = cons.snapshot()
    if case.form == "list":
        m = sint("m")
        requires(m >= 0)
        k_ = _z3.Int("k!e")
        exprs = VList(None, m.t, _z3.Lambda([k_], 5000000 + k_), "ref")      # expression number k
        o = call(REAL(SL, "SugarLikeBackend.add_constraint"), be, exprs)
        check("no-exception", not o.raised)
        if o.raised:
            return
        after = attr(be, "converted_constraints")
        check("length-grows-by-the-number-of-constraints", length(after) == nc + m)
        check("earlier-lines-untouched", forall_range(nc, lambda k: mk_bool(_z3.Select(after.arr, k.t) == _z3.Select(before.arr, k.t))))
        check("new-line-k-is-the-text-of-constraint-k", forall_range(m, lambda k: mk_bool(_z3.Select(after.arr, nc.t + k.t) == w.TEXT(5000000 + k.t))))
    else:
        e = SRef(_z3.IntVal(5000000))
        o = call(REAL(SL, "SugarLikeBackend.add_constraint"), be, e)
        check("no-exception", not o.raised)
        if o.raised:
            return
        after = attr(be, "converted_constraints")
        check("length-grows-by-one", length(after) == nc + 1)
        check("earlier-lines-untouched", forall_range(nc, lambda k: mk_bool(_z3.Select(after.arr, k.t) == _z3.Select(before.arr, k.t))))
        check("new-line-is-the-text-of-the-constraint", mk_bool(_z3.Select(after.arr, nc.t) == w.TEXT(5000000)))
    d2 = attr(be, "converted_variables")
    check("declarations-untouched", And(length(d2) == w.n, forall_range(w.n, lambda k: mk_bool(_z3.Select(d2.arr, k.t) == w.DECL(k.t)))))


def _description_checks(w, decls, cons, nc, joined, extra_line=None):
    """the list handed to "\\n".join is declarations ++ constraints (++ [extra])"""
    if not (len(joined) == 1 and joined[0][1]["sep"] == "\n"):
        raise OutOfSubset("the description is not assembled by one join over a list of lines")
    items = joined[0][1]["items"]
    total = w.n + nc + (1 if extra_line is not None else 0)
    check("line-count", length(items) == total)
    check("declarations-first-in-variable-order", forall_range(w.n, lambda k: mk_bool(_z3.Select(items.arr, k.t) == w.DECL(k.t))))
    check("then-constraints-in-posting-order", forall_range(nc, lambda k: mk_bool(_z3.Select(items.arr, w.n.t + k.t) == _z3.Select(cons.arr, k.t))))
    if extra_line is not None:
        check("key-line-last", mk_bool(_z3.Select(items.arr, w.n.t + nc.t) == zstr(extra_line)))


from pyvc.values import GhostVal as _GV, AbstractSeq as _ASeq


def _proves(cond):
    CTX.solver.push()
    CTX.solver.add(_z3.Not(cond))
    r = CTX.solver.check()
    CTX.solver.pop()
    return r == _z3.unsat


class _Reply(_GV):
    """the reply text of the external solver, seen through `.split("\n")`: the first line contains the
    unsat marker or not; the remaining lines are well-formed assignment lines followed by a closing line"""

    def __init__(self, has_marker, marker, body):
        self.has_marker, self.marker, self.body = has_marker, marker, body

    def pv_getattr(self, name):
        if name == "split":
            def split(it, a, k):
                if list(a) != ["\n"]:
                    raise OutOfSubset("reply split by %r" % (a,))
                return _ReplyLines(self)
            return HostFn(split, "reply.split", raw=True)
        raise OutOfSubset("reply.%s" % name)


class _FirstLine(_GV):
    def __init__(self, r):
        self.r = r

    def pv_contains(self, x):
        if x == self.r.marker:
            return self.r.has_marker
        raise OutOfSubset("membership test of %r in the first reply line" % (x,))


class _ReplyLines(_GV):
    pv_pytype = "list"

    def __init__(self, r):
        self.r = r

    def pv_getitem(self, k):
        if isinstance(k, int) and k == 0:
            return _FirstLine(self.r)
        if isinstance(k, slice) and k.start == 1 and k.stop is None and k.step is None:
            return self.r.body
        raise OutOfSubset("reply lines subscript %r" % (k,))


class _Body(_GV):
    """lines 1.. of a well-formed reply: `a <name>\t<value>` (answer-finder) / `<name> <value>` (deduction),
    or the closing line.  Each iteration sees one arbitrary such line; its parts are kept for the
    per-line postcondition."""
    pv_pytype = "list"

    def __init__(self, mode, mx):
        self.mode, self.mx, self.cur = mode, mx, {}

    def pv_iter(self):
        return _ASeq(self.fresh_line, "reply lines")

    def fresh_line(self):
        cur = self.cur
        cur.clear()
        if SBool(_z3.Bool(CTX.fresh_name("closing_line"))):
            cur["closing"] = True
            return "a" if self.mode == "find" else ""
        cur["closing"] = False
        vid = fresh_int("named_id")
        requires(And(vid >= 0, vid <= self.mx))          # a well-formed reply names declared variables only
        letter = "b" if SBool(_z3.Bool(CTX.fresh_name("names_bool_var"))) else "i"
        D = UF["str_int"](vid.t)
        assume_fact(mk_bool(_z3.And(_z3.Length(D) >= 1, UF["int10_ok"](D), UF["int10"](D) == vid.t)))
        name = SStr(_z3.Concat(_z3.StringVal(letter), D))
        form = CTX.choose(3)
        if form == 0:
            val, want = "true", True
        elif form == 1:
            val, want = "false", False
        else:
            v = fresh_int("value")
            DV = UF["str_int"](v.t)
            assume_fact(mk_bool(_z3.And(_z3.Length(DV) >= 1, UF["int10_ok"](DV), UF["int10"](DV) == v.t,
                                        DV != _z3.StringVal("true"), DV != _z3.StringVal("false"))))
            val, want = SStr(DV), v
        cur.update(id=vid, name=name, val=val, want=want)
        sep = "\t" if self.mode == "find" else " "
        core = name + sep + val
        cur["core"] = core
        cur["sep"] = sep
        return ("a " + core) if self.mode == "find" else core


def _string_contracts(body):
    """instances of the contracts of str.strip / str.split for the well-formed line of this iteration: the
    name and the value contain no white space, hence strip() is the identity on `<name><sep><value>` and
    split(sep) returns [name, value].  Applied only when the argument is provably that text."""
    def strip(s, a):
        c = body.cur.get("core")
        if c is not None and not a and _proves(zstr(s) == zstr(c)):
            return s
        return None

    def split(s, a):
        c = body.cur.get("core")
        if c is not None and a == [body.cur["sep"]] and _proves(zstr(s) == zstr(c)):
            return mklist([body.cur["name"], body.cur["val"]])
        return None

    ghost("str_strip", strip)
    ghost("str_split", split)


def _line_spec(K, ordinal, body, mx):
    """per-line postcondition of the reply loop: the closing line ends the loop without touching the table;
    an assignment line writes exactly the named entry with the typed value"""
    def head(ns):
        return ns.assignment.snapshot()

    def end(ns, before):
        cur = body.cur
        check("closing-line-does-not-reach-the-table", not cur["closing"])
        if cur["closing"]:
            return
        cv = ns.converted_val
        want = cur["want"]
        if want is True or want is False:
            check("boolean-word-becomes-a-Python-bool", cv is want)
        else:
            check("numeral-becomes-that-int", And(not isinstance(cv, (bool, SBool)), cv == want))
        A, B = ns.assignment.arr, before.arr
        enc = _zint(want if not isinstance(want, bool) else int(want))
        check("named-entry-receives-the-value", mk_bool(_z3.Select(A, cur["id"].t) == enc))
        k = fresh_int("other")
        check("other-entries-untouched", implies(k != cur["id"], mk_bool(_z3.Select(A, k.t) == _z3.Select(B, k.t))))

    def brk(ns, before):
        check("only-the-closing-line-ends-the-loop", body.cur["closing"])

    sp = LoopSpec(lambda ns: [length(ns.assignment) == mx + 1], ["assignment"],
                  {"assignment": "list:optint", "line": "str", "var": "str", "val": "str", "converted_val": "opaque"},
                  at_head=head, at_end=end)
    sp.at_break = brk
    from pyvc import api as _api
    _api._LOOP_SPECS[(K, ordinal)] = sp


def _havoc_sol(w):
    def f():
        w.sol = _z3.Array(CTX.fresh_name("sol"), _z3.IntSort(), _z3.IntSort())
    return f


@harness("C03", cases=[dict(reply=r) for r in ("unsat", "sat")])
def solve_protocol(case):
    """answer-finder mode: description, UNSATISFIABLE handling, assignment table, per-line parser, sol = table[v.id]"""
    if CTX.mode != "sym":
        return
    w = _World()
    be, decls, cons, nc, mx = _backend(w)
    sent = []
    body = _Body("find", mx)
    _string_contracts(body)

    def call_solver(it, args, kwargs):
        sent.append(args[1])
        return _Reply(case.reply == "unsat", "UNSATISFIABLE", body)

    use_contract(SL + "::SugarLikeBackend._call_solver", call_solver)
    K = SL + "::SugarLikeBackend.solve"
    table = {}
    loop_spec(K, 0, inv=lambda ns: [forall_range(ns.idx, lambda j: mk_bool(_z3.Select(w.sol, j.t) == NONE), hint="q")],
              modifies=[], types={"v": "opaque"}, ghost_havoc=_havoc_sol(w))
    _line_spec(K, 1, body, mx)

    def inv2(ns):
        A = ns.assignment.arr
        table["arr"] = A
        return [length(ns.assignment) == mx + 1,
                forall_range(ns.idx, lambda j: mk_bool(_z3.Select(w.sol, j.t) == _z3.Select(A, w.ID(j.t))), hint="q")]

    loop_spec(K, 2, inv=inv2, modifies=[], types={"v": "opaque"}, ghost_havoc=_havoc_sol(w))
    n_join = len(events("join"))
    o = call(REAL(SL, "SugarLikeBackend.solve"), be)
    check("no-exception", not o.raised)
    if o.raised:
        return
    _description_checks(w, decls, cons, nc, events("join")[n_join:])
    check("description-sent-once", len(sent) == 1)
    if case.reply == "unsat":
        check("unsat-returns-False", o.value is False)
        check("unsat-clears-every-sol", forall_range(w.n, lambda k: mk_bool(_z3.Select(w.sol, k.t) == NONE)))
    else:
        check("sat-returns-True", o.value is True)
        check("every-sol-is-its-own-table-entry", forall_range(w.n, lambda k: mk_bool(_z3.Select(w.sol, k.t) == _z3.Select(table["arr"], w.ID(k.t)))))


@harness("C03", cases=[dict(reply=r) for r in ("unsat", "sat")])
def solve_irrefutably_protocol(case):
    """deduction mode: key line names exactly the answer keys in order; every sol cleared before the reply is
    read; unsat => False; sat => per-line parser, sol = table[v.id]"""
    if CTX.mode != "sym":
        return
    w = _World()
    be, decls, cons, nc, mx = _backend(w)
    keyflags = slist("is_answer_key", "int", w.n)
    sent = []
    body = _Body("deduce", mx)
    _string_contracts(body)

    def call_solver(it, args, kwargs):
        sent.append(args[1])
        return _Reply(case.reply == "unsat", "unsat", body)

    use_contract(SL + "::SugarLikeBackend._call_solver", call_solver)
    K = SL + "::SugarLikeBackend.solve_irrefutably"
    flag = {}

    def head0(ns):
        flag["appended"] = None
        return None

    def on_append(ns, value):
        flag["appended"] = value

    def end0(ns, token):
        i = _zint(ns.i)
        is_key = _z3.Select(keyflags.arr, i) != 0
        if flag["appended"] is None:
            check("every-answer-key-is-named", mk_bool(_z3.Not(is_key)))
        else:
            check("only-answer-keys-are-named", mk_bool(is_key))
            name = _z3.If(w.KIND(i) == 0, _z3.Concat(_z3.StringVal("b"), UF["str_int"](w.ID(i))),
                          _z3.Concat(_z3.StringVal("i"), UF["str_int"](w.ID(i))))
            check("key-name-is-kind-letter-plus-id", mk_bool(zstr(flag["appended"]) == name))

    watch("append", K, "answer_keys", on_append)
    loop_spec(K, 0, inv=lambda ns: [], modifies=["answer_keys"], types={"answer_keys": "list:str"}, at_head=head0, at_end=end0)
    loop_spec(K, 1, inv=lambda ns: [forall_range(ns.idx, lambda j: mk_bool(_z3.Select(w.sol, j.t) == NONE), hint="q")],
              modifies=[], types={"v": "opaque"}, ghost_havoc=_havoc_sol(w))
    _line_spec(K, 2, body, mx)
    table = {}

    def inv3(ns):
        A = ns.assignment.arr
        table["arr"] = A
        return [length(ns.assignment) == mx + 1,
                forall_range(ns.idx, lambda j: mk_bool(_z3.Select(w.sol, j.t) == _z3.Select(A, w.ID(j.t))), hint="q")]

    loop_spec(K, 3, inv=inv3, modifies=[], types={"v": "opaque"}, ghost_havoc=_havoc_sol(w))
    n_join = len(events("join"))
    o = call(REAL(SL, "SugarLikeBackend.solve_irrefutably"), be, keyflags)
    check("no-exception", not o.raised)
    if o.raised:
        return
    joins = events("join")[n_join:]
    if not (len(joins) == 2 and joins[0][1]["sep"] == " " and joins[1][1]["sep"] == "\n"):
        raise OutOfSubset("key line / description are not assembled by two joins")
    keyline = "#" + SStr(_join_term(joins[0][1]))
    _description_checks(w, decls, cons, nc, joins[1:], extra_line=keyline)
    check("description-sent-once", len(sent) == 1)
    if case.reply == "unsat":
        check("unsat-returns-False", o.value is False)
        check("unsat-leaves-every-sol-None", forall_range(w.n, lambda k: mk_bool(_z3.Select(w.sol, k.t) == NONE)))
    else:
        check("sat-returns-True", o.value is True)
        check("every-sol-is-its-own-table-entry", forall_range(w.n, lambda k: mk_bool(_z3.Select(w.sol, k.t) == _z3.Select(table["arr"], w.ID(k.t)))))


def _join_term(ev):
    items = ev["items"]
    fn = _z3.Function("py_join_%s" % "".join("%02x" % ord(c) for c in ev["sep"]),
                      _z3.ArraySort(_z3.IntSort(), _z3.StringSort()), _z3.IntSort(), _z3.StringSort())
    return fn(items.arr, items.length)
