"""C16 — the URL frame shared by every puzzle codec (cspuz/problem_serializer.py), proved for all names, sizes and
bodies:

  serialize_problem_as_url: the URL is prefix + puzzle + "/" + width + "/" + height + "/" + body (puzz.link order:
      name, then WIDTH, then HEIGHT), body = serialize_problem(combinator, problem, height=height, width=width);
  get_puzzle_info_from_url: (name, height, width) of a URL of that form; None when the pattern does not match;
  deserialize_problem_as_url: the body is decoded with height = third field, width = second field (not swapped);
      allowed_puzzles (a name or a list of names) rejects other names with ValueError; a URL that does not match
      raises ValueError or returns None with allow_failure; None from the decoder is passed on; with return_size the
      result is (height, width, problem).
The compiled regular expression is seen through an assumed contract of `match` on URLs of exactly that form
(scheme://host/p? or /p.html? + name without "/" + "/" + decimal + "/" + decimal + "/" + body): groups 1..4 are the
four fields.  int(str(n)) == n for n >= 0 is a ground fact on the uninterpreted numeral functions.
"""
import z3 as _z3

from pyvc.api import *
from pyvc.values import HostFn, GhostVal
from pyvc.sym import _zint, zstr
from pyvc.hostmodels import UF

PS = "cspuz/problem_serializer.py"


def _proves(cond):
    CTX.solver.push()
    CTX.solver.add(_z3.Not(cond))
    r = CTX.solver.check()
    CTX.solver.pop()
    return r == _z3.unsat


def _dec(n):
    return SStr(UF["str_int"](n.t))


class _Stub:
    """callee stand-in usable in both modes: records its arguments, returns a prepared value"""

    def __init__(self, relname, ret, seen):
        self.relname, self.ret, self.seen = relname, ret, seen

    def __enter__(self):
        if CTX.mode == "sym":
            def c(it, a, k):
                self.seen["args"], self.seen["kw"] = a, k
                return self.ret
            use_contract(PS + "::" + self.relname, c)
            self.ov = None
        else:
            def f(*a, **k):
                self.seen["args"], self.seen["kw"] = a, k
                return self.ret
            self.ov = override_global(PS, self.relname, f)
            self.ov.__enter__()
        return self

    def __exit__(self, *a):
        if self.ov is not None:
            self.ov.__exit__(*a)
        return False


def _dec_any(n):
    return _dec(n) if CTX.mode == "sym" else str(n)


def _asm_inputs(case):
    for nm in ("sudoku", "x", ""):
        for (h, w) in ((3, 4), (1, 10), (12, 7), (0, 0)):
            yield dict(puzzle=nm, body="a1b", prefix="https://puzz.link/p?", height=h, width=w)


@harness("C16", native_inputs=_asm_inputs)
def url_assembly(case):
    if CTX.mode == "interp":
        raise OutOfSubset("callee stand-ins are native or symbolic")
    puzzle, body, prefix = sstr("puzzle"), sstr("body"), sstr("prefix")
    h, w = sint("height"), sint("width")
    comb, problem = (Opaque("combinator"), Opaque("problem")) if CTX.mode == "sym" else (object(), object())
    seen = {}
    _dec = _dec_any
    with _Stub("serialize_problem", body, seen):
        o = call(REAL(PS, "serialize_problem_as_url"), comb, puzzle, h, w, problem, prefix)
        o2 = call(REAL(PS, "serialize_problem_as_url"), comb, puzzle, h, w, problem)
    _url_assembly_checks(o, o2, seen, comb, problem, puzzle, body, prefix, h, w)


def _url_assembly_checks(o, o2, seen, comb, problem, puzzle, body, prefix, h, w):
    _dec = _dec_any
    check("no-exception", not o.raised)
    if o.raised:
        return
    check("body-serialised-with-the-same-height-and-width", "kw" in seen and And(seen["kw"].get("height") == h, seen["kw"].get("width") == w))
    check("body-serialised-from-this-combinator-and-problem", "args" in seen and seen["args"][0] is comb and seen["args"][1] is problem)
    check("url-is-prefix-name-WIDTH-HEIGHT-body", o.value == prefix + puzzle + "/" + _dec(w) + "/" + _dec(h) + "/" + body)
    check("default-prefix-is-puzz.link", And(not o2.raised, o2.value == "https://puzz.link/p?" + puzzle + "/" + _dec(w) + "/" + _dec(h) + "/" + body))


class Regex(GhostVal):
    """the compiled URL pattern: contract of match() on a URL built from the four fields"""

    def __init__(self, url, groups):
        self.url, self.groups = url, groups          # groups None: the pattern does not match this URL

    def pv_getattr(self, name):
        if name == "match":
            def match(it, a, k):
                if not _proves(zstr(a[0]) == zstr(self.url)):
                    raise OutOfSubset("match on another text than the URL")
                return None if self.groups is None else Match(self.groups)
            return HostFn(match, "Pattern.match", raw=True)
        raise OutOfSubset("Pattern.%s" % name)


class Match(GhostVal):
    def __init__(self, groups):
        self.groups = groups

    def pv_getitem(self, k):
        if isinstance(k, int) and 1 <= k <= 4:
            return self.groups[k - 1]
        raise OutOfSubset("match group %r" % (k,))

    def pv_getattr(self, name):
        if name == "group":
            return HostFn(lambda it, a, k: self.pv_getitem(a[0]), "Match.group", raw=True)
        raise OutOfSubset("Match.%s" % name)

    def pv_truthy(self):
        return True


def _url(match=True):
    name, body = sstr("name"), sstr("body")
    w, h = sint("width"), sint("height")
    requires(And(w >= 0, h >= 0))
    if CTX.mode != "sym":
        url = "https://puzz.link/p?" + name + "/" + str(w) + "/" + str(h) + "/" + body if match else "puzz.link " + name
        return url, name, w, h, str(w), str(h), body
    dw, dh = _dec(w), _dec(h)
    for n, d in ((w, dw), (h, dh)):
        assume_fact(mk_bool(_z3.And(UF["int10_ok"](d.t), UF["int10"](d.t) == n.t)))        # int(str(n)) == n
    url = "https://puzz.link/p?" + name + "/" + dw + "/" + dh + "/" + body
    return url, name, w, h, dw, dh, body


class _Pattern:
    """sym: the pattern is replaced by its contract on this URL; native: the real compiled pattern is used"""

    def __init__(self, url, groups):
        self.ov = override_global(PS, "_DESERIALIZE_URL_REG", Regex(url, groups)) if CTX.mode == "sym" else None

    def __enter__(self):
        if self.ov is not None:
            self.ov.__enter__()
        return self

    def __exit__(self, *a):
        if self.ov is not None:
            self.ov.__exit__(*a)
        return False


def _url_inputs(case):
    for nm in ("sudoku", "lits", "a.b"):
        for (h, w) in ((3, 4), (1, 10), (12, 7), (0, 5)):
            for body in ("", "g1h2", "a/b"):
                yield dict(name=nm, body=body, height=h, width=w, other_name="nurikabe")


@harness("C16", cases=[dict(match=m) for m in (True, False)], native_inputs=_url_inputs)
def puzzle_info_from_url(case):
    if CTX.mode == "interp":
        raise OutOfSubset("regular expressions are native or by contract")
    url, name, w, h, dw, dh, body = _url(case.match)
    with _Pattern(url, (name, dw, dh, body) if case.match else None):
        o = call(REAL(PS, "get_puzzle_info_from_url"), url)
    check("no-exception", not o.raised)
    if o.raised:
        return
    if not case.match:
        check("no-match-gives-None", o.value is None)
        return
    r = o.value
    check("info-is-(name, HEIGHT, WIDTH)", isinstance(r, tuple) and len(r) == 3 and And(r[0] == name, r[1] == h, r[2] == w))


@harness("C16", cases=[dict(match=m, allowed=a, size=s, fail=f, result=r)
                       for m in (True, False) for a in ("none", "same", "other", "list-in", "list-out") for s in (False, True)
                       for f in (False, True) for r in ("problem", "none") if m or (a == "none" and r == "problem")],
         native_inputs=_url_inputs)
def url_disassembly(case):
    if CTX.mode == "interp":
        raise OutOfSubset("regular expressions are native or by contract")
    url, name, w, h, dw, dh, body = _url(case.match)
    comb, problem = (Opaque("combinator"), Opaque("problem")) if CTX.mode == "sym" else (object(), object())
    seen = {}
    other = sstr("other_name")
    requires(other != name)
    allowed = {"none": None, "same": name, "other": other, "list-in": mklist([other, name]), "list-out": mklist([other])}[case.allowed]
    with _Stub("deserialize_problem", problem if case.result == "problem" else None, seen), _Pattern(url, (name, dw, dh, body) if case.match else None):
        o = call(REAL(PS, "deserialize_problem_as_url"), comb, url, allowed, case.fail, case.size)
    if not case.match:
        if case.fail:
            check("non-URL-with-allow_failure-gives-None", And(not o.raised, o.value is None))
        else:
            check("non-URL-raises-ValueError", o.exc == "ValueError")
        check("decoder-not-consulted", "args" not in seen)
        return
    if case.allowed in ("other", "list-out"):
        check("unexpected-puzzle-name-raises-ValueError", o.exc == "ValueError")
        check("decoder-not-consulted", "args" not in seen)
        return
    check("no-exception", not o.raised)
    if o.raised:
        return
    check("decoder-consulted-once-with-this-combinator-and-the-body", "args" in seen and seen["args"][0] is comb and seen["args"][1] == body)
    if "kw" in seen:
        check("decoded-with-HEIGHT=third-field-and-WIDTH=second-field", And(seen["kw"].get("height") == h, seen["kw"].get("width") == w))
    if case.result == "none":
        check("None-from-the-decoder-is-passed-on", o.value is None)
    elif case.size:
        r = o.value
        check("with-return_size-the-result-is-(height, width, problem)", isinstance(r, tuple) and len(r) == 3 and And(r[0] == h, r[1] == w) and r[2] is problem)
    else:
        check("the-decoded-problem-is-returned", o.value is problem)
