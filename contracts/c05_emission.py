"""C05 — emission contract of _division_connected (rank / spanning-forest encoding, use_graph_primitive=False) and the
lemma that carries it to the property.

Proved here by pyvc for every graph (ghost incidence lists, row i = entries (NB(i,k), IE(i,k))), every number of regions,
both values of allow_empty_group, roots absent or an arbitrary list of None / vertex ids:
  * created, in this order: n ranks with domain [0, n-1], n root flags, m forest flags (one per edge); nothing else;
  * for every vertex i and every entry k = (j, e) of its row, exactly one summand  forest[e] & (rank[i] > rank[j])  is
    collected at position k of a list that starts empty for every vertex, and the constraint
        forest[e] -> (division[i] == division[j]) & (rank[i] != rank[j])
    is posted exactly when i < j;
  * for every vertex i exactly one more constraint:  count_true(<those summands>) == cond(root[i], 0, 1);
  * for every label l < num_regions exactly one constraint:
        count_true([root[v] & (division[v] == l) for every vertex v]) == 1        (<= 1 with allow_empty_group);
  * for every listed root r at position p:  division[r] == p  and  root[r];  nothing for a None entry;
  * nothing is posted outside these loops.
For a loop-free graph every edge at i is one entry of row i and is entered from its smaller end exactly once
(representation invariant, C04/graph_add_edge), so this is the schema `C05.Enc` of lean/Encoders.lean, and
`C05.enc_iff_spec` proves: satisfiable in (rank, root, forest)  <=>  every label class induces a connected subgraph,
every label is used unless allow_empty_group, every listed root carries the label of its position.
(A root listed at a position >= num_regions makes both sides false when labels range over 0..num_regions-1.)
The native route of the same function is a reduction to C04's native operator (c04_graph_plumbing.py).
"""
import z3 as _z3

from pyvc.api import *
from pyvc.values import VList, HostFn, GhostVal, AbstractSeq, PointwiseSeq
from pyvc.sym import _zint
from contracts.c04_graph_plumbing import IncView, IncRowView, EdgeList
from contracts.c09_emission import T, Ranks, _is_rank
from contracts.c06_emission import F, FlagArr, _is_flag

GR = "cspuz/graph.py"
SOLV = "cspuz/solver.py"
K = GR + "::_division_connected"
I = _z3.IntSort()


class DivArr(GhostVal):
    """the label expressions: element v is the tagged record T('div', v)"""
    pv_pytype = "list"

    def __init__(self, n):
        self.n = n

    def pv_len(self):
        return self.n

    def pv_getitem(self, j):
        if not bool((j >= 0) & (j < self.n)):
            check("label-index-is-a-vertex", False)
            raise PathEnd("label index")
        return T("div", j)


def _is_div(t, j):
    return isinstance(t, T) and t.tag == "div" and bool(t.parts[0] == j)


def _eq(a, b):
    r = a == b
    return r if isinstance(r, bool) else bool(r)


def _flag(t, name, j):
    return isinstance(t, T) and t.tag == "flag" and t.parts[0] == name and _eq(t.parts[1], j)


def _rank(t, j):
    return isinstance(t, T) and t.tag == "rank" and _eq(t.parts[0], j)


def _div(t, j):
    return isinstance(t, T) and t.tag == "div" and _eq(t.parts[0], j)


@harness("C05", structural=True, cases=[dict(allow_empty=False, roots=False), dict(allow_empty=True, roots=False),
                                         dict(allow_empty=False, roots=True), dict(allow_empty=True, roots=True)])
def division_emission(case):
    if CTX.mode != "sym":
        return
    n, m, nr = sint("n"), sint("m"), sint("num_regions")
    requires(And(n >= 0, m >= 0, nr >= 0))
    LEN, NB, IE = _z3.Function("LEN", I, I), _z3.Function("NB", I, I, I), _z3.Function("IE", I, I, I)

    class Row(IncRowView):
        pv_indexed = True

        def pv_getitem(self, k):
            j, e = IncRowView.pv_getitem(self, k)
            assume_fact(mk_bool(_z3.And(j.t >= 0, j.t < n.t)))
            return (j, e)

    class Inc(IncView):
        def pv_getitem(self, v):
            IncView.pv_getitem(self, v)
            return Row(self, v)

    inc = Inc(n, m, LEN, NB, IE)
    g = OBJ(GR, "Graph", num_vertices=n, edges=EdgeList(m, _z3.Function("U", I, I), _z3.Function("V", I, I)), incident_edges=inc)
    division = DivArr(n)
    created, posted, summands, arrays = [], [], [], []

    def int_array(it, a, k):
        created.append(("int",) + tuple(a[1:]))
        return Ranks(a[1])

    def bool_array(it, a, k):
        created.append(("bool",) + tuple(a[1:]))
        arr = FlagArr("root" if not arrays else "forest", a[1])
        arrays.append(arr)
        return arr

    use_contract(SOLV + "::Solver.int_array", int_array)
    use_contract(SOLV + "::Solver.bool_array", bool_array)
    use_contract(SOLV + "::Solver.ensure", lambda it, a, k: posted.extend(a[1:]))
    use_contract("cspuz/constraints.py::count_true", lambda it, a, k: T("count_true", *a))
    watch("append", K, "less_ranks", lambda ns, v: summands.append(v))
    solver = OBJ(SOLV, "Solver", variables=mklist([]), is_answer_key=mklist([]), constraints=mklist([]))

    roots = None
    if case.roots:
        NONE, ROOT = _z3.Function("ROOTNONE", I, _z3.BoolSort()), _z3.Function("ROOT", I, I)
        nroots = sint("len_roots")
        requires(nroots >= 0)

        class Roots(GhostVal):
            pv_pytype = "list"

            def pv_len(self):
                return nroots

            def pv_getitem(self, p):
                if bool(mk_bool(NONE(_zint(p)))):
                    return None
                r = SInt(ROOT(_zint(p)))
                requires(And(r >= 0, r < n))          # listed roots are vertex ids
                return r
        roots = Roots()

    mark = {}

    # ---- per vertex (loop 2) and per incident entry (loop 3)
    def head_out(ns):
        mark["P"] = len(posted)
        return None

    def end_out(ns, token):
        i = ns.i
        newp = posted[mark["P"]:]
        newp = newp[-1:]                                  # (on the path that left the inner loop only what follows it is logged)
        check("one-counting-constraint-per-vertex", len(newp) == 1)
        if len(newp) != 1:
            return
        c = newp[0]
        ok = isinstance(c, T) and c.tag == "cmp:Eq" and len(c.parts) == 2
        check("it-is-an-equation", ok)
        if not ok:
            return
        a, b = c.parts
        if not (isinstance(a, T) and a.tag == "count_true"):
            a, b = b, a
        ok = isinstance(a, T) and a.tag == "count_true" and len(a.parts) == 1 and a.parts[0] is ns.less_ranks
        check("counting-exactly-the-collected-summands", ok)
        check("one-summand-per-incident-entry", length(ns.less_ranks) == SInt(LEN(_zint(i))))
        check("equal-to-0-for-a-root-else-1", isinstance(b, T) and b.tag == "cond" and _flag(b.parts[0], "root", i)
              and b.parts[1] == 0 and b.parts[2] == 1)

    def head_in(ns):
        mark["p"], mark["s"] = len(posted), len(summands)
        return None

    def end_in(ns, token):
        i, k = ns.i, ns.idx
        j, e = SInt(NB(_zint(i), k.t)), SInt(IE(_zint(i), k.t))
        news, newp = summands[mark["s"]:], posted[mark["p"]:]
        check("one-summand-per-entry", len(news) == 1)
        if len(news) == 1:
            s_ = news[0]
            ok = isinstance(s_, T) and s_.tag == "bin:BitAnd" and len(s_.parts) == 2
            check("summand-is-a-conjunction", ok)
            if ok:
                a, b = s_.parts
                if not (isinstance(a, T) and a.tag == "flag"):
                    a, b = b, a
                check("summand-says-this-entry's-edge-is-in-the-forest", _flag(a, "forest", e))
                gt = isinstance(b, T) and ((b.tag == "cmp:Gt" and _rank(b.parts[0], i) and _rank(b.parts[1], j)) or
                                           (b.tag == "cmp:Lt" and _rank(b.parts[0], j) and _rank(b.parts[1], i)))
                check("summand-says-the-neighbour's-rank-is-smaller", gt)
        if bool(i < j):
            check("forest-edge-constraint-posted-once-from-the-smaller-end", len(newp) == 1)
            if len(newp) == 1:
                c = newp[0]
                ok = isinstance(c, T) and c.tag == "then" and len(c.parts) == 2 and _flag(c.parts[0], "forest", e)
                check("it-is-conditional-on-the-edge-being-in-the-forest", ok)
                body = c.parts[1] if ok else None
                ok = ok and isinstance(body, T) and body.tag == "bin:BitAnd" and len(body.parts) == 2
                check("and-demands-two-things", ok)
                if ok:
                    a, b = body.parts
                    if not (isinstance(a, T) and a.tag == "cmp:Eq"):
                        a, b = b, a
                    check("equal-labels-at-the-two-ends", isinstance(a, T) and a.tag == "cmp:Eq" and
                          ((_div(a.parts[0], i) and _div(a.parts[1], j)) or (_div(a.parts[0], j) and _div(a.parts[1], i))))
                    check("different-ranks-at-the-two-ends", isinstance(b, T) and b.tag == "cmp:NotEq" and
                          ((_rank(b.parts[0], i) and _rank(b.parts[1], j)) or (_rank(b.parts[0], j) and _rank(b.parts[1], i))))
        else:
            check("no-constraint-from-the-larger-end", len(newp) == 0)

    loop_spec(K, 2, inv=lambda ns: [ns.i >= 0], modifies=[], types={"less_ranks": "list:ref", "j": "int", "e": "int"},
              at_head=head_out, at_end=end_out)
    loop_spec(K, 3, inv=lambda ns: [ns.i >= 0, ns.i < n, length(ns.less_ranks) == ns.idx], modifies=["less_ranks"],
              types={"less_ranks": "list:ref"}, at_head=head_in, at_end=end_in)

    # ---- per label (loop 4)
    def head_lab(ns):
        mark["L"] = len(posted)
        return None

    def end_lab(ns, token):
        l = ns.i
        newp = posted[mark["L"]:]
        check("one-constraint-per-label", len(newp) == 1)
        if len(newp) != 1:
            return
        c = newp[0]
        want = "cmp:LtE" if case.allow_empty else "cmp:Eq"
        ok = isinstance(c, T) and c.tag == want and len(c.parts) == 2 and isinstance(c.parts[0], T) and c.parts[0].tag == "count_true" \
            and len(c.parts[0].parts) == 1 and c.parts[1] == 1
        check("at-most-one-root-per-label" if case.allow_empty else "exactly-one-root-per-label", ok)
        if not ok:
            return
        items = c.parts[0].parts[0]
        check("one-item-per-vertex", length(items) == n)
        v = fresh_int("vertex")
        requires(And(v >= 0, v < n))
        it_v = interp().getitem(items, v)
        ok = isinstance(it_v, T) and it_v.tag == "bin:BitAnd" and len(it_v.parts) == 2
        check("item-is-a-conjunction", ok)
        if ok:
            a, b = it_v.parts
            if not (isinstance(a, T) and a.tag == "flag"):
                a, b = b, a
            check("item-says-the-vertex-is-a-root", _flag(a, "root", v))
            check("item-says-the-vertex-carries-this-label", isinstance(b, T) and b.tag == "cmp:Eq" and
                  ((_div(b.parts[0], v) and _eq(b.parts[1], l)) or (_div(b.parts[1], v) and _eq(b.parts[0], l))))

    loop_spec(K, 4, inv=lambda ns: [ns.i >= 0], modifies=[], types={}, at_head=head_lab, at_end=end_lab)

    # ---- per listed root (loop 5)
    if case.roots:
        def head_ro(ns):
            mark["R"] = len(posted)
            return None

        def end_ro(ns, token):
            p, r = ns.i, ns.r
            newp = posted[mark["R"]:]
            if r is None:
                check("nothing-for-a-None-entry", len(newp) == 0)
                return
            check("two-constraints-per-listed-root", len(newp) == 2)
            if len(newp) != 2:
                return
            c1, c2 = newp
            if not (isinstance(c1, T) and c1.tag == "cmp:Eq"):
                c1, c2 = c2, c1
            check("the-root-carries-the-label-of-its-position", isinstance(c1, T) and c1.tag == "cmp:Eq" and
                  ((_div(c1.parts[0], r) and _eq(c1.parts[1], p)) or (_div(c1.parts[1], r) and _eq(c1.parts[0], p))))
            check("and-is-a-root-of-the-forest", _flag(c2, "root", r))

        loop_spec(K, 5, inv=lambda ns: [], modifies=[], types={"r": "opaque"}, at_head=head_ro, at_end=end_ro)

    o = call(REAL(GR, "_division_connected"), solver, division, nr, g, roots, case.allow_empty, False)
    check("no-exception", not o.raised)
    if o.raised:
        return
    check("arrays-created:ranks-[0,n-1],root-flags,forest-flags", len(created) == 3 and [c[0] for c in created] == ["int", "bool", "bool"]
          and And(created[0][1] == n, created[0][2] == 0, created[0][3] == n - 1, created[1][1] == n, created[2][1] == m))
    check("nothing-posted-outside-the-loops", len(posted) == 0)
